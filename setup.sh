#!/bin/bash
# Offline setup: build the verifier and warm the Go build cache for /repo packages.
set -e
cd "$(dirname "$0")"
export GOFLAGS=-mod=mod GOPROXY=off GOSUMDB=off GOTOOLCHAIN=local
mkdir -p bin evidence replays
(cd gocv && go build -o ../bin/gocv .)
# warm export data for the packages the checks load (go list -export is what go/packages runs)
(cd /repo && GOFLAGS=-mod=readonly go list -export -tags verif -deps ./common/... ./core/... ./merkle/... ./native/... ./consensus/vbft/... ./txnpool/... ./validator/... ./p2pserver/message/... ./p2pserver/common/... >/dev/null 2>&1 || true)
echo setup done
