// F18 (C32): written by an audit sub-agent, confirmed against the real code before the fix; place in the package named in its package clause directory (side_chain_manager / node_manager / neo3_state_manager under native/service/governance).
package neo3_state_manager

import (
	"strconv"
	"testing"

	"github.com/polynetwork/poly/account"
	"github.com/polynetwork/poly/common"
	vconfig "github.com/polynetwork/poly/consensus/vbft/config"
	cstates "github.com/polynetwork/poly/core/states"
	"github.com/polynetwork/poly/core/store/leveldbstore"
	"github.com/polynetwork/poly/core/store/overlaydb"
	"github.com/polynetwork/poly/core/types"
	"github.com/polynetwork/poly/native"
	"github.com/polynetwork/poly/native/service/governance/node_manager"
	"github.com/polynetwork/poly/native/service/utils"
	"github.com/polynetwork/poly/native/storage"
)

func zzA4Native(db *storage.CacheDB, signer common.Address, input []byte) *native.NativeService {
	tx := &types.Transaction{SignedAddr: []common.Address{signer}}
	ns, err := native.NewNativeService(db, tx, 0, 100, common.Uint256{}, 0, input, false)
	if err != nil {
		panic(err)
	}
	return ns
}

// C32: approveRegisterStateValidator / approveRemoveStateValidator do not reject an id for which no request exists
// (getStateValidatorApply returns nil,nil and the nil is not checked before CheckConsensusSigns records the approval).
// Approvals given when there was NO request are later counted towards whatever request is filed under that id.
func TestA4Neo3StateValidatorApprovalsOfMissingRequestCount(t *testing.T) {
	store, _ := leveldbstore.NewMemLevelDBStore()
	db := storage.NewCacheDB(overlaydb.NewOverlayDB(store))
	vals := make([]*account.Account, 4) // N = 4, ceil(2N/3) = 3
	pool := &node_manager.PeerPoolMap{PeerPoolMap: map[string]*node_manager.PeerPoolItem{}}
	for i := range vals {
		vals[i] = account.NewAccount(strconv.Itoa(i))
		pk := vconfig.PubkeyID(vals[i].PublicKey)
		pool.PeerPoolMap[pk] = &node_manager.PeerPoolItem{Index: uint32(i + 1), PeerPubkey: pk, Address: vals[i].Address, Status: node_manager.ConsensusStatus}
	}
	sink := common.NewZeroCopySink(nil)
	pool.Serialization(sink)
	db.Put(utils.ConcatKey(utils.NodeManagerContractAddress, []byte(node_manager.PEER_POOL), utils.GetUint32Bytes(0)), cstates.GenRawStorageItem(sink.Bytes()))
	gv := &node_manager.GovernanceView{View: 0, Height: 10, TxHash: common.UINT256_EMPTY}
	sink = common.NewZeroCopySink(nil)
	gv.Serialization(sink)
	db.Put(utils.ConcatKey(utils.NodeManagerContractAddress, []byte(node_manager.GOVERNANCE_VIEW)), cstates.GenRawStorageItem(sink.Bytes()))

	approve := func(a *account.Account, id uint64) error {
		p := &ApproveStateValidatorParam{ID: id, Address: a.Address}
		s := common.NewZeroCopySink(nil)
		p.Serialization(s)
		_, err := ApproveRegisterStateValidator(zzA4Native(db, a.Address, s.Bytes()))
		return err
	}

	// no request with id 0 exists, yet the approvals of A and B for id 0 are accepted and recorded
	for _, v := range vals[:2] {
		if err := approve(v, 0); err != nil {
			t.Skipf("approval of a missing request is rejected (good): %v", err)
		}
	}

	// now somebody files the request that gets id 0
	outsider := account.NewAccount("")
	const evil = "02ffffffffffffffffffffffffffffffffffffffffffffffffffffffffffffffff"
	p := &StateValidatorListParam{StateValidators: []string{evil}, Address: outsider.Address}
	s := common.NewZeroCopySink(nil)
	p.Serialization(s)
	if _, err := RegisterStateValidator(zzA4Native(db, outsider.Address, s.Bytes())); err != nil {
		t.Fatal(err)
	}
	if req, _ := getStateValidatorApply(zzA4Native(db, outsider.Address, nil), 0); req == nil {
		t.Fatal("setup: request did not get id 0")
	}

	// a single validator (C) approves it
	if err := approve(vals[2], 0); err != nil {
		t.Fatal(err)
	}
	raw, _ := GetCurrentStateValidator(zzA4Native(db, outsider.Address, nil))
	svs, _ := DeserializeStringArray(raw)
	if len(svs) == 1 && svs[0] == evil {
		t.Fatalf("registerStateValidator request 0 (%v) took effect after ONE approval given while the request existed (validator C); "+
			"the approvals of A and B were given when no request 0 existed and were nevertheless counted; the property demands 3 of 4 "+
			"distinct current validators approving that same request", svs)
	}
}
