// F18 (C32): written by an audit sub-agent, confirmed against the real code before the fix; place in the package named in its package clause directory (side_chain_manager / node_manager / neo3_state_manager under native/service/governance).
package side_chain_manager

import (
	"bytes"
	"strconv"
	"testing"

	"github.com/polynetwork/poly/account"
	"github.com/polynetwork/poly/common"
	vconfig "github.com/polynetwork/poly/consensus/vbft/config"
	cstates "github.com/polynetwork/poly/core/states"
	"github.com/polynetwork/poly/core/store/leveldbstore"
	"github.com/polynetwork/poly/core/store/overlaydb"
	"github.com/polynetwork/poly/core/types"
	"github.com/polynetwork/poly/native"
	"github.com/polynetwork/poly/native/service/governance/node_manager"
	"github.com/polynetwork/poly/native/service/utils"
	"github.com/polynetwork/poly/native/storage"
)

func zzA4NewDB() *storage.CacheDB {
	store, _ := leveldbstore.NewMemLevelDBStore()
	return storage.NewCacheDB(overlaydb.NewOverlayDB(store))
}

func zzA4Native(db *storage.CacheDB, signer common.Address, input []byte) *native.NativeService {
	tx := &types.Transaction{SignedAddr: []common.Address{signer}}
	ns, err := native.NewNativeService(db, tx, 0, 100, common.Uint256{}, 0, input, false)
	if err != nil {
		panic(err)
	}
	return ns
}

func zzA4PutValidators(db *storage.CacheDB, vals []*account.Account) {
	m := &node_manager.PeerPoolMap{PeerPoolMap: make(map[string]*node_manager.PeerPoolItem)}
	for i, v := range vals {
		pk := vconfig.PubkeyID(v.PublicKey)
		m.PeerPoolMap[pk] = &node_manager.PeerPoolItem{Index: uint32(i + 1), PeerPubkey: pk, Address: v.Address, Status: node_manager.ConsensusStatus}
	}
	sink := common.NewZeroCopySink(nil)
	m.Serialization(sink)
	db.Put(utils.ConcatKey(utils.NodeManagerContractAddress, []byte(node_manager.PEER_POOL), utils.GetUint32Bytes(0)), cstates.GenRawStorageItem(sink.Bytes()))
	gv := &node_manager.GovernanceView{View: 0, Height: 10, TxHash: common.UINT256_EMPTY}
	sink = common.NewZeroCopySink(nil)
	gv.Serialization(sink)
	db.Put(utils.ConcatKey(utils.NodeManagerContractAddress, []byte(node_manager.GOVERNANCE_VIEW)), cstates.GenRawStorageItem(sink.Bytes()))
}

// C32: approvals given to update request U1 of a side chain are counted towards a different
// update request U2 that the owner later files for the same chain id.
func TestA4UpdateSideChainRequestSwapKeepsApprovals(t *testing.T) {
	db := zzA4NewDB()
	vals := make([]*account.Account, 4) // N = 4, ceil(2N/3) = 3
	for i := range vals {
		vals[i] = account.NewAccount(strconv.Itoa(i))
	}
	owner := account.NewAccount("")
	zzA4PutValidators(db, vals)

	const chainID = 9
	reqBytes := func(name string, ccmc []byte) []byte {
		p := &RegisterSideChainParam{Address: owner.Address, ChainId: chainID, Router: 2, Name: name, BlocksToWait: 1, CCMCAddress: ccmc}
		s := common.NewZeroCopySink(nil)
		if err := p.Serialization(s); err != nil {
			t.Fatal(err)
		}
		return s.Bytes()
	}
	approveBytes := func(a *account.Account) []byte {
		p := &ChainidParam{Chainid: chainID, Address: a.Address}
		s := common.NewZeroCopySink(nil)
		p.Serialization(s)
		return s.Bytes()
	}

	good := []byte{0x01, 0x01, 0x01}
	evil := []byte{0xEE, 0xEE, 0xEE}

	// register the chain with a full quorum (A, B, C)
	if _, err := RegisterSideChain(zzA4Native(db, owner.Address, reqBytes("chain", good))); err != nil {
		t.Fatal(err)
	}
	for _, v := range vals[:3] {
		if _, err := ApproveRegisterSideChain(zzA4Native(db, v.Address, approveBytes(v))); err != nil {
			t.Fatal(err)
		}
	}
	sc, err := GetSideChain(zzA4Native(db, owner.Address, nil), chainID)
	if err != nil || sc == nil {
		t.Fatalf("setup: side chain not registered: %v", err)
	}

	// update request U1 (harmless rename): validators A and B approve it (2 < 3, not effective yet)
	if _, err := UpdateSideChain(zzA4Native(db, owner.Address, reqBytes("chain-renamed", good))); err != nil {
		t.Fatal(err)
	}
	for _, v := range vals[:2] {
		if _, err := ApproveUpdateSideChain(zzA4Native(db, v.Address, approveBytes(v))); err != nil {
			t.Fatal(err)
		}
	}
	sc, _ = GetSideChain(zzA4Native(db, owner.Address, nil), chainID)
	if sc.Name != "chain" {
		t.Fatalf("setup: U1 took effect after 2 of 4 approvals")
	}

	// the owner replaces the pending request by U2 (different CCMC address); nobody has approved U2
	if _, err := UpdateSideChain(zzA4Native(db, owner.Address, reqBytes("chain-renamed", evil))); err != nil {
		t.Fatal(err)
	}
	// one single validator (C) approves U2
	if _, err := ApproveUpdateSideChain(zzA4Native(db, vals[2].Address, approveBytes(vals[2]))); err != nil {
		t.Fatal(err)
	}
	sc, _ = GetSideChain(zzA4Native(db, owner.Address, nil), chainID)
	if bytes.Equal(sc.CCMCAddress, evil) {
		t.Fatalf("update request U2 (CCMC %x) took effect after ONE approval of U2 (validator C): the two approvals that A and B "+
			"gave to the different request U1 (CCMC %x) were counted towards it; the property demands ceil(2*4/3)=3 distinct "+
			"current validators approving that same request", evil, good)
	}
}
