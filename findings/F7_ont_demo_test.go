package ont

// Demonstration for finding F7-ont (property C19); place in native/service/header_sync/ont/ as
// zz_f7_demo_test.go. The ont router's SyncGenesisHeader had no "already initialised" test: a
// second installation for the same chain succeeded and replaced the tracked validator set.

import (
	"encoding/json"
	"testing"

	ocommon "github.com/ontio/ontology/common"
	otypes "github.com/ontio/ontology/core/types"
	vconfig "github.com/polynetwork/poly/consensus/vbft/config"
	"github.com/polynetwork/poly/common"
	"github.com/polynetwork/poly/core/types"
	"github.com/ontio/ontology-crypto/keypair"
	"github.com/polynetwork/poly/core/states"
	"github.com/polynetwork/poly/core/store/leveldbstore"
	"github.com/polynetwork/poly/core/store/overlaydb"
	"github.com/polynetwork/poly/native/service/governance/node_manager"
	"github.com/polynetwork/poly/native/service/utils"
	"github.com/polynetwork/poly/native/storage"
	scom "github.com/polynetwork/poly/native/service/header_sync/common"
)

func f7Genesis(t *testing.T, peerID string) []byte {
	info := &vconfig.VbftBlockInfo{NewChainConfig: &vconfig.ChainConfig{Peers: []*vconfig.PeerConfig{{Index: 1, ID: peerID}}}}
	payload, err := json.Marshal(info)
	if err != nil {
		t.Fatal(err)
	}
	h := &otypes.Header{Version: 0, Height: 0, ConsensusPayload: payload}
	sink := ocommon.NewZeroCopySink(nil)
	h.Serialization(sink)
	param := &scom.SyncGenesisHeaderParam{ChainID: 3, GenesisHeader: sink.Bytes()}
	s := common.NewZeroCopySink(nil)
	param.Serialization(s)
	return s.Bytes()
}

// storage with a governance view and a one-member consensus pool, so that the consensus operator is
// the multi-signature address of acct (what GetCurConOperator derives) and the witness check passes
func f7DB(t *testing.T) (*storage.CacheDB, common.Address) {
	store, _ := leveldbstore.NewMemLevelDBStore()
	db := storage.NewCacheDB(overlaydb.NewOverlayDB(store))
	sink := common.NewZeroCopySink(nil)
	(&node_manager.GovernanceView{TxHash: common.UINT256_EMPTY, Height: 0, View: 0}).Serialization(sink)
	db.Put(utils.ConcatKey(utils.NodeManagerContractAddress, []byte(node_manager.GOVERNANCE_VIEW)), states.GenRawStorageItem(sink.Bytes()))
	pool := &node_manager.PeerPoolMap{PeerPoolMap: map[string]*node_manager.PeerPoolItem{
		vconfig.PubkeyID(acct.PublicKey): {Address: acct.Address, Status: node_manager.ConsensusStatus, PeerPubkey: vconfig.PubkeyID(acct.PublicKey), Index: 0}}}
	sink.Reset()
	pool.Serialization(sink)
	db.Put(utils.ConcatKey(utils.NodeManagerContractAddress, []byte(node_manager.PEER_POOL), utils.GetUint32Bytes(0)), states.GenRawStorageItem(sink.Bytes()))
	op, err := types.AddressFromBookkeepers([]keypair.PublicKey{acct.PublicKey})
	if err != nil {
		t.Fatal(err)
	}
	return db, op
}

func TestF7OntGenesisInstalledOnce(t *testing.T) {
	db, op := f7DB(t)
	tx := &types.Transaction{SignedAddr: []common.Address{op}}
	idA := "03f1095289e7fddb882f1cb3e158acc1c30d9de606af21c97ba851821e8b6ea535"
	idB := "038bfc50b0e3f0e5df6d451069065cbfa7ab5d382a5839cce82e0c963edb026e94"
	ns := NewNative(f7Genesis(t, idA), tx, db)
	if err := NewONTHandler().SyncGenesisHeader(ns); err != nil {
		t.Fatal(err)
	}
	ns2 := NewNative(f7Genesis(t, idB), tx, ns.GetCacheDB())
	if err := NewONTHandler().SyncGenesisHeader(ns2); err == nil {
		t.Errorf("second genesis installation for chain 3 succeeded")
	}
	peers, err := getConsensusPeersByHeight(ns2, 3, 0)
	if err != nil {
		t.Fatal(err)
	}
	if _, ok := peers.PeerMap[idA]; !ok || len(peers.PeerMap) != 1 {
		t.Errorf("tracked validator set was replaced: %v", peers.PeerMap)
	}
	kh, _ := GetKeyHeights(ns2, 3)
	if len(kh.HeightList) != 1 {
		t.Errorf("key heights changed by the second installation: %v", kh.HeightList)
	}
}
