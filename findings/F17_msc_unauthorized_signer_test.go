// belongs in: native/service/header_sync/msc (the package's own tests do not build: mask them with -overlay); F17 (C29): written by an audit sub-agent, confirmed before the fix.
package msc

// Audit test for property C29 (PoSA light clients accept only valid validator seals).
//
// The msc (clique) light client never checks that the address recovered from a
// header's seal is a member of the authorized signer set.  verifySeal() builds the
// snapshot, checks the checkpoint signer list, the recent-signer window and the
// in-turn difficulty, but there is no `snap.Signers[signer]` membership test.
// Snapshot.apply() does have one, but it only sees headers with a non-zero
// Coinbase (votes), so a forged header with Coinbase == 0 is never re-examined.
//
// The test registers an msc chain with three authorized signers and then lets
// complete outsiders (fresh keys that are in no signer list) extend the chain,
// through a checkpoint block, with an arbitrary state root.

import (
	"bytes"
	"crypto/ecdsa"
	"encoding/json"
	"math/big"
	"sort"
	"testing"

	ecommon "github.com/ethereum/go-ethereum/common"
	"github.com/ethereum/go-ethereum/consensus/clique"
	etypes "github.com/ethereum/go-ethereum/core/types"
	"github.com/ethereum/go-ethereum/crypto"
	"github.com/ontio/ontology-crypto/keypair"
	"github.com/polynetwork/poly/account"
	"github.com/polynetwork/poly/common"
	vconfig "github.com/polynetwork/poly/consensus/vbft/config"
	"github.com/polynetwork/poly/core/genesis"
	"github.com/polynetwork/poly/core/states"
	"github.com/polynetwork/poly/core/store/leveldbstore"
	"github.com/polynetwork/poly/core/store/overlaydb"
	"github.com/polynetwork/poly/core/types"
	"github.com/polynetwork/poly/native"
	"github.com/polynetwork/poly/native/service/governance/node_manager"
	"github.com/polynetwork/poly/native/service/governance/side_chain_manager"
	scom "github.com/polynetwork/poly/native/service/header_sync/common"
	"github.com/polynetwork/poly/native/service/utils"
	"github.com/polynetwork/poly/native/storage"
)

const auditChainID = 77
const auditEpoch = 10

var auditAcct = account.NewAccount("")

func auditKey(seed byte) *ecdsa.PrivateKey {
	b := bytes.Repeat([]byte{seed}, 32)
	k, err := crypto.ToECDSA(b)
	if err != nil {
		panic(err)
	}
	return k
}

func auditNewDB() *storage.CacheDB {
	genesis.GenesisBookkeepers = []keypair.PublicKey{auditAcct.PublicKey}
	store, _ := leveldbstore.NewMemLevelDBStore()
	db := storage.NewCacheDB(overlaydb.NewOverlayDB(store))
	sink := common.NewZeroCopySink(nil)
	view := &node_manager.GovernanceView{TxHash: common.UINT256_EMPTY}
	view.Serialization(sink)
	db.Put(utils.ConcatKey(utils.NodeManagerContractAddress, []byte(node_manager.GOVERNANCE_VIEW)), states.GenRawStorageItem(sink.Bytes()))
	peerPoolMap := &node_manager.PeerPoolMap{
		PeerPoolMap: map[string]*node_manager.PeerPoolItem{
			vconfig.PubkeyID(auditAcct.PublicKey): {
				Address:    auditAcct.Address,
				Status:     node_manager.ConsensusStatus,
				PeerPubkey: vconfig.PubkeyID(auditAcct.PublicKey),
			},
		},
	}
	sink.Reset()
	peerPoolMap.Serialization(sink)
	db.Put(utils.ConcatKey(utils.NodeManagerContractAddress, []byte(node_manager.PEER_POOL), utils.GetUint32Bytes(0)), states.GenRawStorageItem(sink.Bytes()))
	return db
}

func auditNative(t *testing.T, db *storage.CacheDB, args []byte) *native.NativeService {
	tx := &types.Transaction{SignedAddr: []common.Address{auditAcct.Address}}
	ns, err := native.NewNativeService(db, tx, 0, 0, common.Uint256{0}, 0, args, false)
	if err != nil {
		t.Fatal(err)
	}
	return ns
}

// seal signs the header with key (clique seal hash) and stores the seal in Extra.
func auditSeal(h *etypes.Header, key *ecdsa.PrivateKey) {
	sig, err := crypto.Sign(clique.SealHash(h).Bytes(), key)
	if err != nil {
		panic(err)
	}
	copy(h.Extra[len(h.Extra)-65:], sig)
}

func auditHeader(parent *etypes.Header, signersExtra []byte, difficulty int64, root ecommon.Hash) *etypes.Header {
	extra := make([]byte, 32)
	extra = append(extra, signersExtra...)
	extra = append(extra, make([]byte, 65)...)
	h := &etypes.Header{
		UncleHash:  etypes.CalcUncleHash(nil),
		Root:       root,
		Difficulty: big.NewInt(difficulty),
		Number:     big.NewInt(auditEpoch),
		GasLimit:   8000000,
		Time:       1000,
		Extra:      extra,
	}
	if parent != nil {
		h.ParentHash = parent.Hash()
		h.Number = new(big.Int).Add(parent.Number, big.NewInt(1))
		h.Time = parent.Time + 1
	}
	return h
}

func auditSync(t *testing.T, db *storage.CacheDB, h *etypes.Header) error {
	raw, err := json.Marshal(h)
	if err != nil {
		t.Fatal(err)
	}
	p := &scom.SyncBlockHeaderParam{ChainID: auditChainID, Address: auditAcct.Address, Headers: [][]byte{raw}}
	sink := common.NewZeroCopySink(nil)
	p.Serialization(sink)
	return NewHandler().SyncBlockHeader(auditNative(t, db, sink.Bytes()))
}

func auditHexes(as []ecommon.Address) (out []string) {
	for _, a := range as {
		out = append(out, a.Hex())
	}
	return
}

func TestAuditMscUnauthorizedSignerAccepted(t *testing.T) {
	mockSigner = ecommon.Address{} // make sure the real ecrecover path is used

	// three authorized signers
	keys := map[ecommon.Address]*ecdsa.PrivateKey{}
	var signers []ecommon.Address
	for _, s := range []byte{1, 2, 3} {
		k := auditKey(s)
		a := crypto.PubkeyToAddress(k.PublicKey)
		keys[a] = k
		signers = append(signers, a)
	}
	sort.Slice(signers, func(i, j int) bool { return bytes.Compare(signers[i][:], signers[j][:]) < 0 })
	var signersExtra []byte
	for _, s := range signers {
		signersExtra = append(signersExtra, s[:]...)
	}
	authorized := func(a ecommon.Address) bool { _, ok := keys[a]; return ok }

	// register the chain and its genesis (checkpoint block #10 listing the three signers)
	db := auditNewDB()
	extraInfo, _ := json.Marshal(ExtraInfo{ChainID: big.NewInt(1), Period: 1, Epoch: auditEpoch})
	genesisHdr := auditHeader(nil, signersExtra, 1, ecommon.Hash{})
	auditSeal(genesisHdr, keys[signers[1]])
	{
		raw, _ := json.Marshal(genesisHdr)
		p := &scom.SyncGenesisHeaderParam{ChainID: auditChainID, GenesisHeader: raw}
		sink := common.NewZeroCopySink(nil)
		p.Serialization(sink)
		ns := auditNative(t, db, sink.Bytes())
		if err := side_chain_manager.PutSideChain(ns, &side_chain_manager.SideChain{ChainId: auditChainID, ExtraInfo: extraInfo}); err != nil {
			t.Fatal(err)
		}
		if err := NewHandler().SyncGenesisHeader(ns); err != nil {
			t.Fatalf("setup: SyncGenesisHeader: %v", err)
		}
	}

	// control: an authorized signer with the wrong difficulty is rejected, so verification is live
	{
		n := genesisHdr.Number.Uint64() + 1
		inturn := signers[n%3]
		bad := auditHeader(genesisHdr, nil, 1, ecommon.Hash{}) // in-turn signer must use difficulty 2
		auditSeal(bad, keys[inturn])
		if err := auditSync(t, db, bad); err == nil {
			t.Fatalf("setup: in-turn authorized signer with difficulty 1 was accepted, control broken")
		}
	}

	// attack: outsiders (keys 0x41, 0x42, ...) extend the chain past the next checkpoint (#20)
	evilRoot := ecommon.HexToHash("0xbadc0ffee0000000000000000000000000000000000000000000000000000000")
	parent := genesisHdr
	var accepted []uint64
	for i := 0; i < 12; i++ {
		k := auditKey(byte(0x41 + i))
		outsider := crypto.PubkeyToAddress(k.PublicKey)
		if authorized(outsider) {
			t.Fatal("setup: outsider key collides with an authorized signer")
		}
		var ext []byte
		if (parent.Number.Uint64()+1)%auditEpoch == 0 {
			ext = signersExtra // checkpoint block must repeat the signer list
		}
		h := auditHeader(parent, ext, 1, evilRoot)
		auditSeal(h, k)
		rec, err := ecrecover(h)
		if err != nil || rec != outsider {
			t.Fatalf("setup: seal does not recover to outsider: %v %x", err, rec)
		}
		if err := auditSync(t, db, h); err != nil {
			t.Logf("forged header #%d sealed by outsider %s rejected: %v", h.Number, outsider.Hex(), err)
			break
		}
		accepted = append(accepted, h.Number.Uint64())
		parent = h
	}

	ns := auditNative(t, db, nil)
	height, err := GetCanonicalHeight(ns, auditChainID)
	if err != nil {
		t.Fatal(err)
	}
	canon, err := GetCanonicalHeader(ns, auditChainID, height)
	if err != nil || canon == nil {
		t.Fatalf("GetCanonicalHeader: %v", err)
	}
	if len(accepted) > 0 {
		sealer, _ := ecrecover(canon.Header)
		t.Fatalf("C29 violated: %d headers %v sealed by keys that are NOT in the authorized signer set %v were stored "+
			"(including checkpoint #20); canonical tip is now #%d state root %s sealed by %s (authorized=%v). "+
			"The property demands that a header is stored only if its seal recovers to a member of the validator set in effect.",
			len(accepted), accepted, auditHexes(signers), height, canon.Header.Root.Hex(), sealer.Hex(), authorized(sealer))
	}
}
