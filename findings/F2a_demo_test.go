package side_chain_manager

// Demonstration of finding F2a (property C33): after validators approve a side chain's quit
// request, the request is still pending. Place in native/service/governance/side_chain_manager/.

import (
	"encoding/hex"
	"testing"

	"github.com/ontio/ontology-crypto/keypair"
	"github.com/polynetwork/poly/common"
	cstates "github.com/polynetwork/poly/core/states"
	"github.com/polynetwork/poly/core/types"
	"github.com/polynetwork/poly/native/service/governance/node_manager"
	"github.com/polynetwork/poly/native/service/utils"
)

func TestF2aQuitRequestConsumed(t *testing.T) {
	tx := &types.Transaction{SignedAddr: []common.Address{acct.Address}}
	ns := NewNative(nil, tx, nil)
	db := ns.GetCacheDB()
	// node manager state: view 1, one consensus validator (acct)
	gv := &node_manager.GovernanceView{View: 1, Height: 0, TxHash: common.UINT256_EMPTY}
	sink := common.NewZeroCopySink(nil)
	gv.Serialization(sink)
	db.Put(utils.ConcatKey(utils.NodeManagerContractAddress, []byte(node_manager.GOVERNANCE_VIEW)), cstates.GenRawStorageItem(sink.Bytes()))
	pk := hex.EncodeToString(keypair.SerializePublicKey(acct.PublicKey))
	pool := &node_manager.PeerPoolMap{PeerPoolMap: map[string]*node_manager.PeerPoolItem{
		pk: {Index: 1, PeerPubkey: pk, Address: acct.Address, Status: node_manager.ConsensusStatus}}}
	sink = common.NewZeroCopySink(nil)
	pool.Serialization(sink)
	db.Put(utils.ConcatKey(utils.NodeManagerContractAddress, []byte(node_manager.PEER_POOL), utils.GetUint32Bytes(1)), cstates.GenRawStorageItem(sink.Bytes()))
	// a registered chain 8 owned by acct, with a pending quit request
	if err := PutSideChain(ns, &SideChain{Address: acct.Address, ChainId: 8, Name: "c"}); err != nil {
		t.Fatal(err)
	}
	if err := putQuitSideChain(ns, 8); err != nil {
		t.Fatal(err)
	}
	// the validator approves: quorum 1 of 1 fires
	p := &ChainidParam{Chainid: 8, Address: acct.Address}
	sink = common.NewZeroCopySink(nil)
	p.Serialization(sink)
	ns2 := NewNative(sink.Bytes(), tx, db)
	res, err := ApproveQuitSideChain(ns2)
	if err != nil || len(res) != 1 || res[0] != 1 {
		t.Fatalf("approve failed: %v %v", res, err)
	}
	sc, _ := GetSideChain(ns2, 8)
	if sc != nil {
		t.Fatalf("side chain should have been removed")
	}
	// C33: the approved request must no longer be pending
	if err := getQuitSideChain(ns2, 8); err == nil {
		t.Fatalf("quit request for chain 8 is still pending after it was approved and applied")
	}
}
