package neo3_state_manager

// Demonstration for finding F1c (property C04); place in native/service/governance/neo3_state_manager/
// as zz_f1c_demo_test.go. StateValidatorListParam (call parameter of registerStateValidator /
// removeStateValidator) and DeserializeStringArray (the persisted validator list) passed a decoded
// element count unchecked to make([]string, 0, n): a count such as 2^62 panics.

import (
	"testing"

	"github.com/polynetwork/poly/common"
)

func TestF1cDecodersNeverPanic(t *testing.T) {
	for _, count := range []uint64{0xFFFFFFFFFFFFFFFF, 1 << 62, 1 << 45} {
		sink := common.NewZeroCopySink(nil)
		sink.WriteVarUint(count) // number of strings that follow (none does)
		func() {
			defer func() {
				if r := recover(); r != nil {
					t.Errorf("StateValidatorListParam, count %#x: decoding panicked: %v", count, r)
				}
			}()
			if err := new(StateValidatorListParam).Deserialization(common.NewZeroCopySource(sink.Bytes())); err == nil {
				t.Errorf("StateValidatorListParam, count %#x: accepted", count)
			}
		}()
		func() {
			defer func() {
				if r := recover(); r != nil {
					t.Errorf("DeserializeStringArray, count %#x: decoding panicked: %v", count, r)
				}
			}()
			if _, err := DeserializeStringArray(sink.Bytes()); err == nil {
				t.Errorf("DeserializeStringArray, count %#x: accepted", count)
			}
		}()
	}
}
