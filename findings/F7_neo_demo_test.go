package neo

// Demonstration for finding F7-neo (property C19); place in native/service/header_sync/neo/ as
// zz_f7_demo_test.go (the neo3 and neo3legacy routers have the same shape). A second
// SyncGenesisHeader for an initialised chain left the state unchanged but reported SUCCESS;
// the property demands that every later installation attempt fails.

import (
	"encoding/binary"
	"testing"

	"github.com/joeqian10/neo-gogogo/block"
	"github.com/joeqian10/neo-gogogo/helper"
	tx2 "github.com/joeqian10/neo-gogogo/tx"
	"github.com/polynetwork/poly/common"
	"github.com/polynetwork/poly/core/types"
	"github.com/ontio/ontology-crypto/keypair"
	"github.com/polynetwork/poly/core/states"
	"github.com/polynetwork/poly/core/store/leveldbstore"
	"github.com/polynetwork/poly/core/store/overlaydb"
	"github.com/polynetwork/poly/native/service/governance/node_manager"
	"github.com/polynetwork/poly/native/service/utils"
	"github.com/polynetwork/poly/native/storage"
	vconfig "github.com/polynetwork/poly/consensus/vbft/config"
	scom "github.com/polynetwork/poly/native/service/header_sync/common"
)

func f7NeoGenesis(t *testing.T, next string) []byte {
	prevHash, _ := helper.UInt256FromString("0x0000000000000000000000000000000000000000000000000000000000000000")
	merKleRoot, _ := helper.UInt256FromString("0x803ff4abe3ea6533bcc0be574efa02f83ae8fdc651c879056b0d9be336c01bf4")
	nextConsensus, err := helper.AddressToScriptHash(next)
	if err != nil {
		t.Fatal(err)
	}
	h := &NeoBlockHeader{&block.BlockHeader{Version: 0, PrevHash: prevHash, MerkleRoot: merKleRoot, Timestamp: 1468595301, Index: 0,
		NextConsensus: nextConsensus, ConsensusData: binary.BigEndian.Uint64(helper.HexToBytes("000000007c2bac1d")),
		Witness: &tx2.Witness{InvocationScript: []byte{0}, VerificationScript: []byte{81}}}}
	sink := common.NewZeroCopySink(nil)
	if err := h.Serialization(sink); err != nil {
		t.Fatal(err)
	}
	param := &scom.SyncGenesisHeaderParam{ChainID: 4, GenesisHeader: sink.Bytes()}
	s := common.NewZeroCopySink(nil)
	param.Serialization(s)
	return s.Bytes()
}

// storage with a governance view and a one-member consensus pool, so that the consensus operator is
// the multi-signature address of acct (what GetCurConOperator derives) and the witness check passes
func f7DB(t *testing.T) (*storage.CacheDB, common.Address) {
	store, _ := leveldbstore.NewMemLevelDBStore()
	db := storage.NewCacheDB(overlaydb.NewOverlayDB(store))
	sink := common.NewZeroCopySink(nil)
	(&node_manager.GovernanceView{TxHash: common.UINT256_EMPTY, Height: 0, View: 0}).Serialization(sink)
	db.Put(utils.ConcatKey(utils.NodeManagerContractAddress, []byte(node_manager.GOVERNANCE_VIEW)), states.GenRawStorageItem(sink.Bytes()))
	pool := &node_manager.PeerPoolMap{PeerPoolMap: map[string]*node_manager.PeerPoolItem{
		vconfig.PubkeyID(acct.PublicKey): {Address: acct.Address, Status: node_manager.ConsensusStatus, PeerPubkey: vconfig.PubkeyID(acct.PublicKey), Index: 0}}}
	sink.Reset()
	pool.Serialization(sink)
	db.Put(utils.ConcatKey(utils.NodeManagerContractAddress, []byte(node_manager.PEER_POOL), utils.GetUint32Bytes(0)), states.GenRawStorageItem(sink.Bytes()))
	op, err := types.AddressFromBookkeepers([]keypair.PublicKey{acct.PublicKey})
	if err != nil {
		t.Fatal(err)
	}
	return db, op
}

func TestF7NeoSecondGenesisFails(t *testing.T) {
	db, op := f7DB(t)
	tx := &types.Transaction{SignedAddr: []common.Address{op}}
	ns := NewNative(f7NeoGenesis(t, "APyEx5f4Zm4oCHwFWiSTaph1fPBxZacYVR"), tx, db)
	if err := NewNEOHandler().SyncGenesisHeader(ns); err != nil {
		t.Fatal(err)
	}
	before, err := getConsensusValByChainId(ns, 4)
	if err != nil {
		t.Fatal(err)
	}
	ns2 := NewNative(f7NeoGenesis(t, "AXxCjds5Fxy7VSrriDMbCrSRTxpRdvmLtx"), tx, ns.GetCacheDB())
	if err := NewNEOHandler().SyncGenesisHeader(ns2); err == nil {
		t.Errorf("second genesis installation for chain 4 reported success")
	}
	after, err := getConsensusValByChainId(ns2, 4)
	if err != nil {
		t.Fatal(err)
	}
	if after.NextConsensus != before.NextConsensus {
		t.Errorf("trust root changed")
	}
}
