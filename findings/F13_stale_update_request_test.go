package side_chain_manager

// belongs in: native/service/governance/side_chain_manager   (go test -vet=off -run TestF13StaleUpdateRequest)
// F13 (C35): ApproveUpdateSideChain applies whatever update request is pending for the chain id without looking at
// the registry. History: owner A registers chain 8 (approved), A files an update request, then A quits (approved:
// the chain record is removed, the update request stays). Owner B registers chain 8 (approved). A validator quorum
// that now approves "update chain 8" installs A's stale record over B's: B's registered chain is updated, and its
// owner becomes A, without any request by its registered owner B. (Test harness adapted from a seeded-change demo.)

import (
	"crypto/elliptic"
	"encoding/hex"
	"testing"

	"github.com/ontio/ontology-crypto/ec"
	"github.com/ontio/ontology-crypto/keypair"
	"github.com/polynetwork/poly/common"
	cstates "github.com/polynetwork/poly/core/states"
	"github.com/polynetwork/poly/core/store/leveldbstore"
	"github.com/polynetwork/poly/core/store/overlaydb"
	"github.com/polynetwork/poly/core/types"
	"github.com/polynetwork/poly/native"
	"github.com/polynetwork/poly/native/service/governance/node_manager"
	"github.com/polynetwork/poly/native/service/utils"
	"github.com/polynetwork/poly/native/storage"
)

type f13Env struct {
	t          *testing.T
	db         *storage.CacheDB
	validators []common.Address
}

// f13NewEnv builds an in-memory state with governance view 1 and four consensus peers
// (quorum is 3 of 4).  Keys are derived from fixed scalars, nothing is random.
func f13NewEnv(t *testing.T) *f13Env {
	store, err := leveldbstore.NewMemLevelDBStore()
	if err != nil {
		t.Fatal(err)
	}
	env := &f13Env{t: t, db: storage.NewCacheDB(overlaydb.NewOverlayDB(store))}

	view := &node_manager.GovernanceView{View: 1, Height: 0, TxHash: common.UINT256_EMPTY}
	sink := common.NewZeroCopySink(nil)
	view.Serialization(sink)
	env.db.Put(utils.ConcatKey(utils.NodeManagerContractAddress, []byte(node_manager.GOVERNANCE_VIEW)),
		cstates.GenRawStorageItem(sink.Bytes()))

	pool := &node_manager.PeerPoolMap{PeerPoolMap: make(map[string]*node_manager.PeerPoolItem)}
	for i := 0; i < 4; i++ {
		d := make([]byte, 32)
		d[0] = 0x11
		d[31] = byte(i + 1)
		pri := ec.ConstructPrivateKey(d, elliptic.P256())
		pub := &ec.PublicKey{Algorithm: ec.ECDSA, PublicKey: &pri.PublicKey}
		pkHex := hex.EncodeToString(keypair.SerializePublicKey(pub))
		addr := types.AddressFromPubKey(pub)
		pool.PeerPoolMap[pkHex] = &node_manager.PeerPoolItem{
			Index:      uint32(i + 1),
			PeerPubkey: pkHex,
			Address:    addr,
			Status:     node_manager.ConsensusStatus,
		}
		env.validators = append(env.validators, addr)
	}
	sink = common.NewZeroCopySink(nil)
	pool.Serialization(sink)
	env.db.Put(utils.ConcatKey(utils.NodeManagerContractAddress, []byte(node_manager.PEER_POOL), utils.GetUint32Bytes(1)),
		cstates.GenRawStorageItem(sink.Bytes()))
	return env
}

func (env *f13Env) service(signer common.Address, input []byte) *native.NativeService {
	tx := &types.Transaction{SignedAddr: []common.Address{signer}}
	ns, err := native.NewNativeService(env.db, tx, 0, 0, common.Uint256{}, 0, input, false)
	if err != nil {
		env.t.Fatal(err)
	}
	return ns
}

func f13RegisterInput(owner common.Address, chainID uint64, name string) []byte {
	p := &RegisterSideChainParam{
		Address:      owner,
		ChainId:      chainID,
		Router:       utils.ETH_ROUTER,
		Name:         name,
		BlocksToWait: 4,
		CCMCAddress:  []byte{0xcc, 0x01},
		ExtraInfo:    []byte{},
	}
	sink := common.NewZeroCopySink(nil)
	if err := p.Serialization(sink); err != nil {
		panic(err)
	}
	return sink.Bytes()
}

func f13ChainidInput(signer common.Address, chainID uint64) []byte {
	p := &ChainidParam{Chainid: chainID, Address: signer}
	sink := common.NewZeroCopySink(nil)
	p.Serialization(sink)
	return sink.Bytes()
}

// approve lets the first three validators (a quorum) send the given approve method.
func (env *f13Env) approve(what string, f func(*native.NativeService) ([]byte, error), chainID uint64) {
	for _, v := range env.validators[:3] {
		if _, err := f(env.service(v, f13ChainidInput(v, chainID))); err != nil {
			env.t.Fatalf("%s by validator %s: %v", what, v.ToHexString(), err)
		}
	}
}


func TestF13StaleUpdateRequestOfFormerOwner(t *testing.T) {
	env := f13NewEnv(t)
	ownerA := common.Address{0xa1, 0xa2, 0xa3}
	ownerB := common.Address{0xb1, 0xb2, 0xb3}
	const chainID = uint64(8)

	if _, err := RegisterSideChain(env.service(ownerA, f13RegisterInput(ownerA, chainID, "chain-of-A"))); err != nil {
		t.Fatalf("register by A: %v", err)
	}
	env.approve("approveRegister", ApproveRegisterSideChain, chainID)
	// A files an update (not approved yet) ...
	if _, err := UpdateSideChain(env.service(ownerA, f13RegisterInput(ownerA, chainID, "chain-of-A-v2"))); err != nil {
		t.Fatalf("update request by A: %v", err)
	}
	// ... and quits; validators approve the quit
	if _, err := QuitSideChain(env.service(ownerA, f13ChainidInput(ownerA, chainID))); err != nil {
		t.Fatalf("quit by A: %v", err)
	}
	env.approve("approveQuit", ApproveQuitSideChain, chainID)
	// B registers the id, validators approve
	if _, err := RegisterSideChain(env.service(ownerB, f13RegisterInput(ownerB, chainID, "chain-of-B"))); err != nil {
		t.Fatalf("register by B: %v", err)
	}
	env.approve("approveRegister", ApproveRegisterSideChain, chainID)
	sc, err := GetSideChain(env.service(ownerB, nil), chainID)
	if err != nil || sc == nil || sc.Address != ownerB || sc.Name != "chain-of-B" {
		t.Fatalf("chain 8 should be registered for B, got %v, %v", sc, err)
	}
	// B never asked for an update. A quorum approving "update chain 8" must not change B's record.
	var lastErr error
	for _, v := range env.validators[:3] {
		_, lastErr = ApproveUpdateSideChain(env.service(v, f13ChainidInput(v, chainID)))
	}
	sc, err = GetSideChain(env.service(ownerB, nil), chainID)
	if err != nil || sc == nil {
		t.Fatalf("chain 8 disappeared: %v, %v", sc, err)
	}
	if sc.Address != ownerB || sc.Name != "chain-of-B" {
		t.Errorf("B's registered chain was updated without a request by B: owner is now %s, name %q (last approval error: %v)",
			sc.Address.ToHexString(), sc.Name, lastErr)
	}
}
