// F18 (C32): written by an audit sub-agent, confirmed against the real code before the fix; place in the package named in its package clause directory (side_chain_manager / node_manager / neo3_state_manager under native/service/governance).
package node_manager

import (
	"strconv"
	"strings"
	"testing"

	"github.com/polynetwork/poly/account"
	"github.com/polynetwork/poly/common"
	vconfig "github.com/polynetwork/poly/consensus/vbft/config"
	cstates "github.com/polynetwork/poly/core/states"
	"github.com/polynetwork/poly/core/store/leveldbstore"
	"github.com/polynetwork/poly/core/store/overlaydb"
	"github.com/polynetwork/poly/core/types"
	"github.com/polynetwork/poly/native"
	"github.com/polynetwork/poly/native/service/utils"
	"github.com/polynetwork/poly/native/storage"
)

func zzA4NewDB() *storage.CacheDB {
	store, _ := leveldbstore.NewMemLevelDBStore()
	return storage.NewCacheDB(overlaydb.NewOverlayDB(store))
}

func zzA4Native(db *storage.CacheDB, signer common.Address, height uint32, input []byte) *native.NativeService {
	tx := &types.Transaction{SignedAddr: []common.Address{signer}}
	ns, err := native.NewNativeService(db, tx, 0, height, common.Uint256{}, 0, input, false)
	if err != nil {
		panic(err)
	}
	return ns
}

func zzA4Setup(db *storage.CacheDB, vals []*account.Account) {
	m := &PeerPoolMap{PeerPoolMap: make(map[string]*PeerPoolItem)}
	for i, v := range vals {
		pk := vconfig.PubkeyID(v.PublicKey)
		m.PeerPoolMap[pk] = &PeerPoolItem{Index: uint32(i + 1), PeerPubkey: pk, Address: v.Address, Status: ConsensusStatus}
	}
	sink := common.NewZeroCopySink(nil)
	m.Serialization(sink)
	db.Put(utils.ConcatKey(utils.NodeManagerContractAddress, []byte(PEER_POOL), utils.GetUint32Bytes(0)), cstates.GenRawStorageItem(sink.Bytes()))
	gv := &GovernanceView{View: 0, Height: 10, TxHash: common.UINT256_EMPTY}
	sink = common.NewZeroCopySink(nil)
	gv.Serialization(sink)
	db.Put(utils.ConcatKey(utils.NodeManagerContractAddress, []byte(GOVERNANCE_VIEW)), cstates.GenRawStorageItem(sink.Bytes()))
	db.Put(utils.ConcatKey(utils.NodeManagerContractAddress, []byte(CANDIDITE_INDEX)), cstates.GenRawStorageItem(utils.GetUint32Bytes(uint32(len(vals)+1))))
	cfg := &Configuration{BlockMsgDelay: 10000, HashMsgDelay: 10000, PeerHandshakeTimeout: 10, MaxBlockChangeView: 50}
	sink = common.NewZeroCopySink(nil)
	cfg.Serialization(sink)
	db.Put(utils.ConcatKey(utils.NodeManagerContractAddress, []byte(VBFT_CONFIG)), cstates.GenRawStorageItem(sink.Bytes()))
}

func zzA4Reg(pk string, a common.Address) []byte {
	s := common.NewZeroCopySink(nil)
	(&RegisterPeerParam{PeerPubkey: pk, Address: a}).Serialization(s)
	return s.Bytes()
}

func zzA4Peer(pk string, a common.Address) []byte {
	s := common.NewZeroCopySink(nil)
	(&PeerParam{PeerPubkey: pk, Address: a}).Serialization(s)
	return s.Bytes()
}

func zzA4Accounts(n int) []*account.Account {
	r := make([]*account.Account, n)
	for i := range r {
		r[i] = account.NewAccount(strconv.Itoa(i))
	}
	return r
}

// C32: approvals of candidate request (P, owner1) survive unRegisterCandidate and are counted towards the
// different request (P, owner2) that is filed afterwards for the same peer public key.
func TestA4ApproveCandidateStaleApprovalsAfterUnregister(t *testing.T) {
	db := zzA4NewDB()
	vals := zzA4Accounts(4) // N = 4, ceil(2N/3) = 3
	zzA4Setup(db, vals)
	owner1 := account.NewAccount("")
	owner2 := account.NewAccount("")
	node := account.NewAccount("")
	pk := vconfig.PubkeyID(node.PublicKey)

	// request R1 = (pk, owner1); validators A and B approve it (2 < 3)
	if _, err := RegisterCandidate(zzA4Native(db, owner1.Address, 100, zzA4Reg(pk, owner1.Address))); err != nil {
		t.Fatal(err)
	}
	for _, v := range vals[:2] {
		if _, err := ApproveCandidate(zzA4Native(db, v.Address, 100, zzA4Peer(pk, v.Address))); err != nil {
			t.Fatal(err)
		}
	}
	// owner1 withdraws R1
	if _, err := UnRegisterCandidate(zzA4Native(db, owner1.Address, 100, zzA4Peer(pk, owner1.Address))); err != nil {
		t.Fatal(err)
	}
	// a different party files R2 = (pk, owner2) for the same key; nobody has approved R2
	if _, err := RegisterCandidate(zzA4Native(db, owner2.Address, 100, zzA4Reg(pk, owner2.Address))); err != nil {
		t.Fatal(err)
	}
	// a single validator (C) approves R2
	if _, err := ApproveCandidate(zzA4Native(db, vals[2].Address, 100, zzA4Peer(pk, vals[2].Address))); err != nil {
		t.Fatal(err)
	}
	pool, err := GetPeerPoolMap(zzA4Native(db, owner2.Address, 100, nil), 0)
	if err != nil {
		t.Fatal(err)
	}
	if it, ok := pool.PeerPoolMap[pk]; ok {
		t.Fatalf("candidate request R2 (owner %s) took effect after ONE approval (validator C): peer is in the pool with status %d and owner %s; "+
			"the approvals A and B gave to the withdrawn request R1 (owner %s) were counted towards it; the property demands 3 of 4 "+
			"distinct current validators approving that same request", owner2.Address.ToBase58(), it.Status, it.Address.ToBase58(), owner1.Address.ToBase58())
	}
}

// C32: the quorum counts peer-pool ENTRIES, not distinct validator addresses. The same validator key can be admitted a
// second time under another spelling of its public key (upper-case hex); afterwards that validator's single approval counts twice.
func TestA4SameValidatorCountedTwiceUnderSecondKeySpelling(t *testing.T) {
	db := zzA4NewDB()
	vals := zzA4Accounts(5) // 5 distinct validators: ceil(2*5/3) = 4
	zzA4Setup(db, vals)
	anyone := account.NewAccount("")
	v1Upper := strings.ToUpper(vconfig.PubkeyID(vals[0].PublicKey))

	// the same key as validator V1, spelled in upper-case hex, is accepted as a NEW candidate
	if _, err := RegisterCandidate(zzA4Native(db, anyone.Address, 100, zzA4Reg(v1Upper, anyone.Address))); err != nil {
		t.Skipf("second spelling rejected at registration (good): %v", err)
	}
	for _, v := range vals[:4] {
		if _, err := ApproveCandidate(zzA4Native(db, v.Address, 100, zzA4Peer(v1Upper, v.Address))); err != nil {
			t.Fatal(err)
		}
	}
	// next epoch: candidates become consensus nodes
	if _, err := CommitDpos(zzA4Native(db, anyone.Address, 100, nil)); err != nil {
		t.Fatal(err)
	}
	view, _ := GetView(zzA4Native(db, anyone.Address, 101, nil))
	pool, _ := GetPeerPoolMap(zzA4Native(db, anyone.Address, 101, nil), view)
	addrs := map[common.Address]bool{}
	entries := 0
	for k, it := range pool.PeerPoolMap {
		if it.Status != ConsensusStatus {
			continue
		}
		entries++
		pub, err := vconfig.Pubkey(k)
		if err != nil {
			t.Fatal(err)
		}
		addrs[types.AddressFromPubKey(pub)] = true
	}
	if entries != 6 || len(addrs) != 5 {
		t.Fatalf("setup: expected 6 consensus entries for 5 distinct addresses, got %d / %d", entries, len(addrs))
	}
	need := (2*len(addrs) + 2) / 3 // 4 distinct validators

	// a fresh governance action: admit candidate Z. Only V1, V2, V3 (3 distinct validators) approve.
	z := account.NewAccount("")
	zpk := vconfig.PubkeyID(z.PublicKey)
	if _, err := RegisterCandidate(zzA4Native(db, z.Address, 101, zzA4Reg(zpk, z.Address))); err != nil {
		t.Fatal(err)
	}
	for _, v := range vals[:3] {
		if _, err := ApproveCandidate(zzA4Native(db, v.Address, 101, zzA4Peer(zpk, v.Address))); err != nil {
			t.Fatal(err)
		}
	}
	pool, _ = GetPeerPoolMap(zzA4Native(db, anyone.Address, 101, nil), view)
	if _, ok := pool.PeerPoolMap[zpk]; ok {
		t.Fatalf("approveCandidate(Z) took effect after approvals of 3 distinct consensus validators (V1,V2,V3); there are %d distinct "+
			"consensus validator addresses so the property demands %d; V1 was counted twice because its key is in the pool under two spellings",
			len(addrs), need)
	}
}
