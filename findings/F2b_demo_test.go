package relayer_manager

// Demonstration of finding F2b (property C33): after validators approve a relayer removal
// request, the request is still pending. Place in native/service/governance/relayer_manager/.

import (
	"testing"

	"github.com/polynetwork/poly/account"
	"github.com/polynetwork/poly/common"
	"github.com/polynetwork/poly/core/types"
	"github.com/polynetwork/poly/native"
)

func TestF2bRemoveRequestConsumed(t *testing.T) {
	ns0 := getNativeFunc()
	db := ns0.GetCacheDB()
	cons := []*account.Account{acct}
	putPeerMapPoolAndView(db, cons)
	tx := &types.Transaction{SignedAddr: []common.Address{acct.Address}}
	relayer := common.Address{7, 7, 7}
	mk := func(input []byte) *native.NativeService {
		ns, _ := native.NewNativeService(db, tx, 0, 0, common.Uint256{}, 0, input, false)
		return ns
	}
	// register relayer directly, then request its removal (id 0)
	if err := putRelayer(mk(nil), relayer); err != nil {
		t.Fatal(err)
	}
	req := &RelayerListParam{AddressList: []common.Address{relayer}, Address: acct.Address}
	sink := common.NewZeroCopySink(nil)
	req.Serialization(sink)
	if _, err := RemoveRelayer(mk(sink.Bytes())); err != nil {
		t.Fatal(err)
	}
	// the single consensus validator approves: quorum fires
	ap := &ApproveRelayerParam{ID: 0, Address: acct.Address}
	sink = common.NewZeroCopySink(nil)
	ap.Serialization(sink)
	res, err := ApproveRemoveRelayer(mk(sink.Bytes()))
	if err != nil || len(res) != 1 || res[0] != 1 {
		t.Fatalf("approve failed: %v %v", res, err)
	}
	// C33: the approved removal request must no longer be pending
	if _, err := getRelayerRemove(mk(nil), 0); err == nil {
		t.Fatalf("relayer removal request 0 is still pending after it was approved and applied")
	}
}
