// belongs in: native/service/header_sync/neo3; F25 (C24): written by an audit sub-agent, confirmed before the fix.
package neo3

import (
	"sort"
	"strings"
	"testing"

	"github.com/joeqian10/neo3-gogogo/crypto"
	"github.com/joeqian10/neo3-gogogo/keys"
	"github.com/joeqian10/neo3-gogogo/mpt"
	"github.com/joeqian10/neo3-gogogo/rpc/models"
	"github.com/joeqian10/neo3-gogogo/sc"
	"github.com/polynetwork/poly/account"
	"github.com/polynetwork/poly/common"
	vconfig "github.com/polynetwork/poly/consensus/vbft/config"
	cstates "github.com/polynetwork/poly/core/states"
	"github.com/polynetwork/poly/core/store/leveldbstore"
	"github.com/polynetwork/poly/core/store/overlaydb"
	"github.com/polynetwork/poly/core/types"
	"github.com/polynetwork/poly/native"
	"github.com/polynetwork/poly/native/service/governance/neo3_state_manager"
	"github.com/polynetwork/poly/native/service/governance/node_manager"
	"github.com/polynetwork/poly/native/service/utils"
	"github.com/polynetwork/poly/native/storage"
)

func zzA4Native(db *storage.CacheDB, signer common.Address, input []byte) *native.NativeService {
	tx := &types.Transaction{SignedAddr: []common.Address{signer}}
	ns, err := native.NewNativeService(db, tx, 0, 100, common.Uint256{}, 0, input, false)
	if err != nil {
		panic(err)
	}
	return ns
}

func zzA4Key(b byte) *keys.KeyPair {
	priv := make([]byte, 32)
	for i := range priv {
		priv[i] = b
	}
	kp, err := keys.NewKeyPair(priv)
	if err != nil {
		panic(err)
	}
	return kp
}

// C24 (NEO N3): the tracked state-validator list is de-duplicated by STRING comparison against the old list only, so the
// same public key can be tracked twice (another hex spelling, or twice inside one request). VerifyCrossChainMsgSig then
// builds the multisig script with the duplicated key and one signer counts twice.
func TestA4Neo3DuplicateStateValidatorCountsTwice(t *testing.T) {
	store, _ := leveldbstore.NewMemLevelDBStore()
	db := storage.NewCacheDB(overlaydb.NewOverlayDB(store))

	// relay chain governance: a single consensus validator, so every approval is a quorum
	gov := account.NewAccount("")
	pool := &node_manager.PeerPoolMap{PeerPoolMap: map[string]*node_manager.PeerPoolItem{}}
	gpk := vconfig.PubkeyID(gov.PublicKey)
	pool.PeerPoolMap[gpk] = &node_manager.PeerPoolItem{Index: 1, PeerPubkey: gpk, Address: gov.Address, Status: node_manager.ConsensusStatus}
	sink := common.NewZeroCopySink(nil)
	pool.Serialization(sink)
	db.Put(utils.ConcatKey(utils.NodeManagerContractAddress, []byte(node_manager.PEER_POOL), utils.GetUint32Bytes(0)), cstates.GenRawStorageItem(sink.Bytes()))
	gv := &node_manager.GovernanceView{View: 0, Height: 10, TxHash: common.UINT256_EMPTY}
	sink = common.NewZeroCopySink(nil)
	gv.Serialization(sink)
	db.Put(utils.ConcatKey(utils.NodeManagerContractAddress, []byte(node_manager.GOVERNANCE_VIEW)), cstates.GenRawStorageItem(sink.Bytes()))

	kA, kB, kC := zzA4Key(0x11), zzA4Key(0x22), zzA4Key(0x33)
	sA, sB, sC := kA.PublicKey.String(), kB.PublicKey.String(), kC.PublicKey.String()
	sAup := strings.ToUpper(sA)
	if sAup == sA {
		t.Fatal("setup: key has no hex letters")
	}

	register := func(id uint64, list []string) {
		p := &neo3_state_manager.StateValidatorListParam{StateValidators: list, Address: gov.Address}
		s := common.NewZeroCopySink(nil)
		p.Serialization(s)
		if _, err := neo3_state_manager.RegisterStateValidator(zzA4Native(db, gov.Address, s.Bytes())); err != nil {
			t.Fatal(err)
		}
		a := &neo3_state_manager.ApproveStateValidatorParam{ID: id, Address: gov.Address}
		s = common.NewZeroCopySink(nil)
		a.Serialization(s)
		if _, err := neo3_state_manager.ApproveRegisterStateValidator(zzA4Native(db, gov.Address, s.Bytes())); err != nil {
			t.Fatal(err)
		}
	}
	register(0, []string{sA, sB, sC}) // tracked set {A, B, C}
	register(1, []string{sAup})       // "new" validator: the same key A, spelled in upper-case hex

	raw, err := neo3_state_manager.GetCurrentStateValidator(zzA4Native(db, gov.Address, nil))
	if err != nil {
		t.Fatal(err)
	}
	tracked, _ := neo3_state_manager.DeserializeStringArray(raw)
	distinct := map[string]bool{}
	for _, s := range tracked {
		distinct[strings.ToLower(s)] = true
	}
	if len(tracked) != 4 || len(distinct) != 3 {
		t.Skipf("duplicate was filtered (good): tracked=%v", tracked)
	}

	// expected script exactly as VerifyCrossChainMsgSig builds it: n = 4, m = n-(n-1)/3 = 3, keys sorted inside
	pubs := []crypto.ECPoint{*kA.PublicKey, *kB.PublicKey, *kC.PublicKey, *kA.PublicKey}
	msc, err := sc.CreateMultiSigContract(3, pubs)
	if err != nil {
		t.Fatal(err)
	}

	const magic = uint32(5195086)
	msg := &NeoCrossChainMsg{StateRoot: &mpt.StateRoot{Version: 0, Index: 7,
		RootHash:  "0x" + strings.Repeat("ab", 32),
		Witnesses: []models.RpcWitness{{Verification: crypto.Base64Encode(msc.Script)}}}}
	digest, err := msg.GetMessage(magic)
	if err != nil {
		t.Fatal(err)
	}
	// only A and B sign. A's signature is placed once for every position its key occupies in the sorted key list.
	inv := []byte{}
	nSig := 0
	for _, p := range pubs { // pubs was sorted in place by CreateMultiSigContract
		var kp *keys.KeyPair
		switch p.String() {
		case sA:
			kp = kA
		case sB:
			kp = kB
		default:
			continue
		}
		sig, err := kp.Sign(digest)
		if err != nil {
			t.Fatal(err)
		}
		inv = append(inv, 0x0c, 0x40)
		inv = append(inv, sig...)
		nSig++
	}
	if nSig != 3 {
		t.Fatalf("setup: expected 3 signatures (A, A, B), got %d", nSig)
	}
	msg.Witnesses[0].Invocation = crypto.Base64Encode(inv)

	err = VerifyCrossChainMsgSig(zzA4Native(db, gov.Address, nil), magic, msg)
	if err == nil {
		t.Fatalf("state root accepted with signatures of only 2 distinct tracked state validators (A twice, B once); the tracked set has "+
			"3 distinct members %v (list %v) and n-(n-1)/3 = 3 distinct signers are required: a signer listed twice was counted twice", keysOf(distinct), tracked)
	}
}

func keysOf(m map[string]bool) []string {
	r := []string{}
	for k := range m {
		r = append(r, k[:10]+"..")
	}
	sort.Strings(r)
	return r
}
