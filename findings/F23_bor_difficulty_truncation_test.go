// belongs in: native/service/header_sync/polygon (mask the package's own tests with -overlay); F23 (C29): written by an audit sub-agent, confirmed before the fix.
package polygon

// Audit test for property C29, polygon/bor router: "its difficulty matches whether that signer
// was in turn" and "the canonical chain always follows the highest total difficulty".
//
// bor_header_sync.go verifySeal() compares `header.Difficulty.Uint64() != difficulty`.
// Difficulty is an arbitrary-size big.Int taken from JSON, so Uint64() silently drops everything
// above bit 63: a header whose difficulty is 2^64 + <expected> passes the check, although its
// difficulty does not match the signer's turn, and addHeader() then adds the full 2^64+... value to
// the total difficulty.  One such header, signed by any single key of the current producer set,
// captures the canonical chain for good (honest blocks add at most #validators each).

import (
	"bytes"
	"crypto/ecdsa"
	"encoding/json"
	"math/big"
	"testing"

	ecommon "github.com/ethereum/go-ethereum/common"
	etypes "github.com/ethereum/go-ethereum/core/types"
	"github.com/ethereum/go-ethereum/crypto"
	"github.com/ontio/ontology-crypto/keypair"
	"github.com/polynetwork/poly/account"
	"github.com/polynetwork/poly/common"
	vconfig "github.com/polynetwork/poly/consensus/vbft/config"
	"github.com/polynetwork/poly/core/genesis"
	"github.com/polynetwork/poly/core/states"
	"github.com/polynetwork/poly/core/store/leveldbstore"
	"github.com/polynetwork/poly/core/store/overlaydb"
	"github.com/polynetwork/poly/core/types"
	"github.com/polynetwork/poly/native"
	"github.com/polynetwork/poly/native/service/governance/node_manager"
	"github.com/polynetwork/poly/native/service/governance/side_chain_manager"
	"github.com/polynetwork/poly/native/storage"
	scom "github.com/polynetwork/poly/native/service/header_sync/common"
	"github.com/polynetwork/poly/native/service/header_sync/eth"
	"github.com/polynetwork/poly/native/service/utils"
)

const auditBor2Chain = 219

var auditBor2Acct = account.NewAccount("")

func auditBor2DB() *storage.CacheDB {
	genesis.GenesisBookkeepers = []keypair.PublicKey{auditBor2Acct.PublicKey}
	store, _ := leveldbstore.NewMemLevelDBStore()
	db := storage.NewCacheDB(overlaydb.NewOverlayDB(store))
	sink := common.NewZeroCopySink(nil)
	view := &node_manager.GovernanceView{TxHash: common.UINT256_EMPTY}
	view.Serialization(sink)
	db.Put(utils.ConcatKey(utils.NodeManagerContractAddress, []byte(node_manager.GOVERNANCE_VIEW)), states.GenRawStorageItem(sink.Bytes()))
	ppm := &node_manager.PeerPoolMap{PeerPoolMap: map[string]*node_manager.PeerPoolItem{
		vconfig.PubkeyID(auditBor2Acct.PublicKey): {Address: auditBor2Acct.Address, Status: node_manager.ConsensusStatus, PeerPubkey: vconfig.PubkeyID(auditBor2Acct.PublicKey)},
	}}
	sink.Reset()
	ppm.Serialization(sink)
	db.Put(utils.ConcatKey(utils.NodeManagerContractAddress, []byte(node_manager.PEER_POOL), utils.GetUint32Bytes(0)), states.GenRawStorageItem(sink.Bytes()))
	return db
}

func auditBor2Native(t *testing.T, db *storage.CacheDB, args []byte) *native.NativeService {
	tx := &types.Transaction{SignedAddr: []common.Address{auditBor2Acct.Address}}
	ns, err := native.NewNativeService(db, tx, 0, 0, common.Uint256{0}, 0, args, false)
	if err != nil {
		t.Fatal(err)
	}
	return ns
}

func TestAuditBorDifficultyTruncation(t *testing.T) {
	skipVerifySpan = false
	mockSigner = ecommon.Address{}
	db := auditBor2DB()

	var keys []*ecdsa.PrivateKey
	var vals []*Validator
	for _, s := range []byte{1, 2, 3} {
		k, _ := crypto.ToECDSA(bytes.Repeat([]byte{s}, 32))
		keys = append(keys, k)
		vals = append(vals, NewValidator(crypto.PubkeyToAddress(k.PublicKey), 10))
	}
	genesisHdr := eth.Header{
		UncleHash: etypes.CalcUncleHash(nil), Difficulty: big.NewInt(3), Number: big.NewInt(10),
		GasLimit: 20000000, Time: 1000, Extra: make([]byte, 32+65),
	}
	g := HeaderWithOptionalSnap{Header: genesisHdr, Snapshot: &Snapshot{Hash: genesisHdr.Hash(), ValidatorSet: NewValidatorSet(vals)}}
	var ns0 = auditBor2Native(t, db, nil)
	{
		raw, _ := json.Marshal(g)
		p := scom.SyncGenesisHeaderParam{ChainID: auditBor2Chain, GenesisHeader: raw}
		sink := common.NewZeroCopySink(nil)
		p.Serialization(sink)
		ns := auditBor2Native(t, db, sink.Bytes())
		extraInfo, _ := json.Marshal(ExtraInfo{Sprint: 64, Period: 2, ProducerDelay: 6, BackupMultiplier: 2, HeimdallPolyChainID: 218})
		if err := side_chain_manager.PutSideChain(ns, &side_chain_manager.SideChain{
			ChainId: auditBor2Chain, Router: utils.POLYGON_BOR_ROUTER, Name: "bor", BlocksToWait: 1, ExtraInfo: extraInfo,
		}); err != nil {
			t.Fatal(err)
		}
		if err := NewBorHandler().SyncGenesisHeader(ns); err != nil {
			t.Fatalf("setup: SyncGenesisHeader: %v", err)
		}
	}

	mk := func(signerIdx int, difficulty *big.Int) []byte {
		h := eth.Header{
			ParentHash: genesisHdr.Hash(), UncleHash: etypes.CalcUncleHash(nil), Difficulty: difficulty, Number: big.NewInt(11),
			GasLimit: 20000000, Time: 1100, Extra: make([]byte, 32+65),
		}
		sig, err := crypto.Sign(SealHash(ns0, &h).Bytes(), keys[signerIdx])
		if err != nil {
			t.Fatal(err)
		}
		copy(h.Extra[32:], sig)
		raw, _ := json.Marshal(HeaderWithOptionalProof{Header: h})
		return raw
	}
	sync := func(raw []byte) error {
		p := scom.SyncBlockHeaderParam{ChainID: auditBor2Chain, Address: auditBor2Acct.Address, Headers: [][]byte{raw}}
		sink := common.NewZeroCopySink(nil)
		p.Serialization(sink)
		return NewBorHandler().SyncBlockHeader(auditBor2Native(t, db, sink.Bytes()))
	}

	// what difficulty is signer #1 entitled to at block 11 ?
	snap := &Snapshot{ValidatorSet: NewValidatorSet(vals)}
	expected := snap.Difficulty(vals[1].Address)

	// control: expected+1 is refused
	if err := sync(mk(1, new(big.Int).SetUint64(expected+1))); err == nil {
		t.Fatal("control: wrong difficulty accepted")
	} else {
		t.Logf("control: %v", err)
	}

	// 2^64 + expected
	huge := new(big.Int).Add(new(big.Int).Lsh(big.NewInt(1), 64), new(big.Int).SetUint64(expected))
	if err := sync(mk(1, huge)); err != nil {
		t.Logf("oversized difficulty rejected (good): %v", err)
		return
	}
	height, _ := GetCanonicalHeight(ns0, auditBor2Chain)
	canon, _ := GetCanonicalHeader(ns0, auditBor2Chain, height)
	t.Fatalf("C29 violated (polygon/bor): header #11 with difficulty %s was stored although signer %s is entitled to difficulty %d at that height "+
		"(check uses Difficulty.Uint64(), which truncates to %d); canonical tip is now #%d with total difficulty %s, which no honest fork can ever exceed.",
		huge, vals[1].Address.Hex(), expected, huge.Uint64(), height, canon.DifficultySum)
}
