package ont

// Demonstration for finding F3 (property C24), to be placed in
// native/service/header_sync/ont/ as zz_f3_demo_test.go.
//
// The tracked validator set of the Ontology side chain has four members. A cross-chain
// message signed by ONE of them, whose key and signature are simply listed three times,
// must be rejected: "a signer listed several times counts once". Before the fix
// VerifyCrossChainMsg accepted it (no duplicate check, unlike verifyHeader beside it).

import (
	"testing"

	"github.com/ontio/ontology-crypto/keypair"
	ocommon "github.com/ontio/ontology/common"
	otypes "github.com/ontio/ontology/core/types"
	"github.com/polynetwork/poly/account"
	vconfig "github.com/polynetwork/poly/consensus/vbft/config"
	"github.com/polynetwork/poly/core/signature"
)

func TestF3DuplicatedSignerCountsOnce(t *testing.T) {
	service := getNativeFunc()
	const chainID = uint64(3)
	accts := []*account.Account{account.NewAccount(""), account.NewAccount(""), account.NewAccount(""), account.NewAccount("")}
	peers := &ConsensusPeers{ChainID: chainID, Height: 0, PeerMap: map[string]*Peer{}}
	for i, a := range accts {
		id := vconfig.PubkeyID(a.PublicKey)
		peers.PeerMap[id] = &Peer{Index: uint32(i + 1), PeerPubkey: id}
	}
	if err := putConsensusPeers(service, peers); err != nil {
		t.Fatal(err)
	}

	msg := &otypes.CrossChainMsg{Version: 0, Height: 10, StatesRoot: ocommon.Uint256{1, 2, 3}}
	h := msg.Hash()
	sig, err := signature.Sign(accts[0], h[:])
	if err != nil {
		t.Fatal(err)
	}

	// sanity: two distinct tracked validators (2*3 >= 4) are accepted
	sig1, _ := signature.Sign(accts[1], h[:])
	msg.SigData = [][]byte{sig, sig1}
	if err := VerifyCrossChainMsg(service, chainID, msg, []keypair.PublicKey{accts[0].PublicKey, accts[1].PublicKey}); err != nil {
		t.Fatalf("two distinct tracked validators must be accepted: %v", err)
	}

	// one validator listed three times, its one signature repeated three times
	msg.SigData = [][]byte{sig, sig, sig}
	dup := []keypair.PublicKey{accts[0].PublicKey, accts[0].PublicKey, accts[0].PublicKey}
	if err := VerifyCrossChainMsg(service, chainID, msg, dup); err == nil {
		t.Fatalf("message signed by a single validator listed three times was accepted")
	}
	// and a single validator alone is below the required number (1*3 < 4)
	msg.SigData = [][]byte{sig}
	if err := VerifyCrossChainMsg(service, chainID, msg, []keypair.PublicKey{accts[0].PublicKey}); err == nil {
		t.Fatalf("message signed by one of four validators was accepted")
	}
}
