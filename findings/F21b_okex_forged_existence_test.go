// F21 (C30): written by an audit sub-agent, confirmed against the real code before the fix; belongs in native/service/cross_chain_manager/cosmos resp. okex.
package okex

// Audit A5, property C30 (second sentence), okex router: "A deposit from such a
// chain is accepted only if the submitted message is proven to exist (not
// merely proven absent) in the state committed by a header verified the same
// way."
//
// Same root cause as the cosmos router (see cosmos_forged_existence_test.go):
// okex MakeDepositProposal hands the relayer's proof to
// rootmulti.DefaultProofRuntime().VerifyValue, whose "iavl:v" operator is
// github.com/tendermint/iavl v0.14.0. Its RangeProof verification accepts an
// extra leaf grafted onto a genuine proof (ProofInnerNode.Hash ignores Right
// when Left is set; _computeRootHash trusts a non-empty Right as "hash of the
// following leaves"). All okex-specific guards (two ops, 53-byte key with the
// 0x05||CCMC prefix, module "evm", non-empty key path) are satisfied by the
// forged proof.
//
// Everything here is synthetic and deterministic: a 4-validator ed25519 set, a
// real cosmos-sdk rootmulti/IAVL store holding two genuine cross-chain records
// of the CCMC, a header at height 100 committing that state and signed by all
// four validators.

import (
	"bytes"
	"encoding/hex"
	"testing"
	"time"

	"github.com/cosmos/cosmos-sdk/store/rootmulti"
	storetypes "github.com/cosmos/cosmos-sdk/store/types"
	ethcrypto "github.com/ethereum/go-ethereum/crypto"
	"github.com/polynetwork/poly/common"
	"github.com/polynetwork/poly/core/store/leveldbstore"
	"github.com/polynetwork/poly/core/store/overlaydb"
	"github.com/polynetwork/poly/core/types"
	"github.com/polynetwork/poly/native"
	scom "github.com/polynetwork/poly/native/service/cross_chain_manager/common"
	"github.com/polynetwork/poly/native/service/governance/side_chain_manager"
	hsokex "github.com/polynetwork/poly/native/service/header_sync/okex"
	"github.com/polynetwork/poly/native/storage"
	"github.com/tendermint/iavl"
	abci "github.com/tendermint/tendermint/abci/types"
	"github.com/tendermint/tendermint/crypto/ed25519"
	"github.com/tendermint/tendermint/crypto/merkle"
	"github.com/tendermint/tendermint/crypto/tmhash"
	tmtypes "github.com/tendermint/tendermint/types"
	dbm "github.com/tendermint/tm-db"
)

const (
	a5okChainID   = uint64(12)
	a5okTmChainID = "okexchain-66"
	a5okHeight    = 100
)

var a5okCCMC = bytes.Repeat([]byte{0x7c}, 20)

func a5okParam(tag byte, method string, args string) []byte {
	p := &scom.MakeTxParam{
		TxHash:              bytes.Repeat([]byte{tag}, 32),
		CrossChainID:        bytes.Repeat([]byte{tag + 1}, 32),
		FromContractAddress: bytes.Repeat([]byte{0xC0}, 20),
		ToChainID:           2,
		ToContractAddress:   bytes.Repeat([]byte{0xD0}, 20),
		Method:              method,
		Args:                []byte(args),
	}
	sink := common.NewZeroCopySink(nil)
	p.Serialization(sink)
	return sink.Bytes()
}

func a5okStorageKey(slot byte) []byte {
	k := append([]byte{}, KeyPrefixStorage...)
	k = append(k, a5okCCMC...)
	return append(k, bytes.Repeat([]byte{slot}, 32)...)
}

type a5okWorld struct {
	header   []byte // amino CosmosHeader, signed by the whole validator set
	valHash  []byte
	appHash  []byte
	proofFor func(key []byte) *merkle.Proof
}

func a5okBuild(t *testing.T, records map[string][]byte) *a5okWorld {
	// source chain state
	db := dbm.NewMemDB()
	ms := rootmulti.NewStore(db)
	evmKey := storetypes.NewKVStoreKey("evm")
	accKey := storetypes.NewKVStoreKey("acc")
	ms.MountStoreWithDB(evmKey, storetypes.StoreTypeIAVL, nil)
	ms.MountStoreWithDB(accKey, storetypes.StoreTypeIAVL, nil)
	if err := ms.LoadLatestVersion(); err != nil {
		t.Fatal(err)
	}
	for k, v := range records {
		ms.GetKVStore(evmKey).Set([]byte(k), v)
	}
	ms.GetKVStore(accKey).Set([]byte("some-account"), []byte("balance"))
	cid := ms.Commit()

	// validators
	var vals []*tmtypes.Validator
	privs := map[string]ed25519.PrivKeyEd25519{}
	for i := 0; i < 4; i++ {
		pk := ed25519.GenPrivKeyFromSecret([]byte{'a', '5', byte(i)})
		v := tmtypes.NewValidator(pk.PubKey(), 10)
		vals = append(vals, v)
		privs[string(v.Address)] = pk
	}
	valset := tmtypes.NewValidatorSet(vals)

	ts := time.Unix(1600000000, 0).UTC()
	hdr := tmtypes.Header{
		ChainID:            a5okTmChainID,
		Height:             a5okHeight,
		Time:               ts,
		ValidatorsHash:     valset.Hash(),
		NextValidatorsHash: valset.Hash(),
		AppHash:            cid.Hash,
		ProposerAddress:    valset.Validators[0].Address,
	}
	hdr.Version.Block = 10
	commit := &tmtypes.Commit{
		Height: a5okHeight,
		Round:  0,
		BlockID: tmtypes.BlockID{
			Hash:        hdr.Hash(),
			PartsHeader: tmtypes.PartSetHeader{Total: 1, Hash: bytes.Repeat([]byte{0x11}, 32)},
		},
	}
	for _, v := range valset.Validators {
		commit.Signatures = append(commit.Signatures, tmtypes.CommitSig{
			BlockIDFlag:      tmtypes.BlockIDFlagCommit,
			ValidatorAddress: v.Address,
			Timestamp:        ts,
		})
	}
	for i, v := range valset.Validators {
		sig, err := privs[string(v.Address)].Sign(commit.VoteSignBytes(a5okTmChainID, i))
		if err != nil {
			t.Fatal(err)
		}
		commit.Signatures[i].Signature = sig
	}
	bz, err := hsokex.NewCDC().MarshalBinaryBare(hsokex.CosmosHeader{Header: hdr, Commit: commit, Valsets: valset.Validators})
	if err != nil {
		t.Fatal(err)
	}
	return &a5okWorld{
		header:  bz,
		valHash: valset.Hash(),
		appHash: cid.Hash,
		proofFor: func(key []byte) *merkle.Proof {
			res := ms.Query(abci.RequestQuery{Path: "/evm/key", Data: key, Height: cid.Version, Prove: true})
			if res.Code != 0 || res.Proof == nil {
				t.Fatalf("query proof failed: %v", res.Log)
			}
			return res.Proof
		},
	}
}

// a5okService: fresh ledger holding the trusted okex epoch record (height 90,
// next validators = the synthetic set) and the registered side chain.
func a5okService(t *testing.T, w *a5okWorld, proof *merkle.Proof, key, value []byte) *native.NativeService {
	cdc := hsokex.NewCDC()
	proofBz, err := cdc.MarshalBinaryBare(*proof)
	if err != nil {
		t.Fatal(err)
	}
	extra, err := cdc.MarshalBinaryBare(CosmosProofValue{Kp: "/evm/x:" + hex.EncodeToString(key), Value: value})
	if err != nil {
		t.Fatal(err)
	}
	p := &scom.EntranceParam{
		SourceChainID:         a5okChainID,
		Height:                a5okHeight,
		Proof:                 proofBz,
		RelayerAddress:        []byte{1},
		Extra:                 extra,
		HeaderOrCrossChainMsg: w.header,
	}
	sink := common.NewZeroCopySink(nil)
	p.Serialization(sink)

	store, err := leveldbstore.NewMemLevelDBStore()
	if err != nil {
		t.Fatal(err)
	}
	db := storage.NewCacheDB(overlaydb.NewOverlayDB(store))
	ns, err := native.NewNativeService(db, &types.Transaction{}, 0, 0, common.Uint256{}, 0, sink.Bytes(), false)
	if err != nil {
		t.Fatal(err)
	}
	hsokex.PutEpochSwitchInfo(ns, a5okChainID, &hsokex.CosmosEpochSwitchInfo{
		Height:             90,
		BlockHash:          bytes.Repeat([]byte{0x22}, 32),
		NextValidatorsHash: w.valHash,
		ChainID:            a5okTmChainID,
	})
	if err := side_chain_manager.PutSideChain(ns, &side_chain_manager.SideChain{
		ChainId: a5okChainID, Router: 12, Name: "okex", BlocksToWait: 1, CCMCAddress: a5okCCMC,
	}); err != nil {
		t.Fatal(err)
	}
	return ns
}

func TestAuditA5OkexDepositAcceptsForgedExistenceProof(t *testing.T) {
	genuine1 := a5okParam(0x10, "unlock", "genuine transfer #1")
	genuine2 := a5okParam(0x20, "unlock", "genuine transfer #2")
	k1, k2 := a5okStorageKey(0x01), a5okStorageKey(0x02)
	w := a5okBuild(t, map[string][]byte{
		string(k1): ethcrypto.Keccak256(genuine1),
		string(k2): ethcrypto.Keccak256(genuine2),
	})
	handler := NewHandler()

	// 0. Baseline: a genuine record is accepted, an unproven one is not.
	if _, err := handler.MakeDepositProposal(a5okService(t, w, w.proofFor(k2), k2, genuine2)); err != nil {
		t.Fatalf("setup: genuine okex deposit is not accepted: %v", err)
	}
	forgedValue := a5okParam(0x30, "unlock", "pay the attacker 1000000000")
	forgedKey := a5okStorageKey(0xFF)
	if _, err := handler.MakeDepositProposal(a5okService(t, w, w.proofFor(k2), k2, forgedValue)); err == nil {
		t.Fatalf("setup: an undoctored proof must not prove the forged value")
	}

	// 1. Doctor the genuine proof of k2 (the right-most leaf of the evm store).
	genuine := w.proofFor(k2)
	if len(genuine.Ops) != 2 || genuine.Ops[0].Type != iavl.ProofOpIAVLValue {
		t.Fatalf("unexpected genuine proof layout: %v", genuine.Ops)
	}
	opi, err := iavl.ValueOpDecoder(genuine.Ops[0])
	if err != nil {
		t.Fatal(err)
	}
	rp := opi.(iavl.ValueOp).Proof
	if len(rp.Leaves) != 1 || len(rp.LeftPath) == 0 {
		t.Fatalf("unexpected genuine range proof layout")
	}
	last := len(rp.LeftPath) - 1
	if len(rp.LeftPath[last].Left) == 0 || len(rp.LeftPath[last].Right) != 0 {
		t.Fatalf("setup: expected the genuine leaf to be a right child")
	}
	genuineRoot := rp.ComputeRootHash()
	forgedLeaf := iavl.ProofLeafNode{
		Key:       forgedKey,
		ValueHash: tmhash.Sum(ethcrypto.Keccak256(forgedValue)),
		Version:   1,
	}
	doctored := &iavl.RangeProof{
		LeftPath:   append(iavl.PathToLeaf{}, rp.LeftPath...),
		InnerNodes: []iavl.PathToLeaf{{}},
		Leaves:     []iavl.ProofLeafNode{rp.Leaves[0], forgedLeaf},
	}
	doctored.LeftPath[last].Right = forgedLeaf.Hash()
	if !bytes.Equal(doctored.ComputeRootHash(), genuineRoot) {
		t.Fatalf("setup: doctored proof does not keep the genuine evm store root")
	}
	forgedProof := &merkle.Proof{Ops: []merkle.ProofOp{
		iavl.NewValueOp(forgedKey, doctored).ProofOp(),
		genuine.Ops[1],
	}}

	// 2. Submit.
	got, err := handler.MakeDepositProposal(a5okService(t, w, forgedProof, forgedKey, forgedValue))
	if err == nil {
		t.Fatalf("C30 violated: okex MakeDepositProposal accepted a message that does not exist in the state "+
			"committed by the verified header (storage key %x was never written; args %q). The evm store holds "+
			"only keys %x and %x. The property demands that a deposit is accepted only if the submitted message "+
			"is proven to exist in the committed state.", forgedKey, got.Args, k1, k2)
	}
	t.Logf("forged proof rejected as required: %v", err)
}
