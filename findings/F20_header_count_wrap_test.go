// belongs in: core/types; F20 (C02, stated by the agent under C01): written by an audit sub-agent, confirmed before the fix.
package types

// C01 (and C05, since block headers travel in "headers"/"block" p2p frames): "a length prefix larger than the
// remaining data is reported as an error; it never yields wrong data".
//
// Header.Deserialization (core/types/header.go:168-196, same in Header.Deserialize:259-287) reads the bookkeeper
// and signature counts with NextVarUint (uint64) and loops `for i := 0; i < int(n); i++`. For n >= 2^63 int(n) is
// negative, the loop body never runs and no error is raised: a header whose count prefixes announce 2^63 public
// keys / signatures with NO data behind them decodes "successfully" as a header with zero bookkeepers and zero
// signatures, and the decoded value does not re-encode to the bytes that were read.

import (
	"bytes"
	"testing"

	"github.com/polynetwork/poly/common"
)

func TestAuditHeaderCountPrefixWraps(t *testing.T) {
	h := &Header{Version: 0, ChainID: 1, Timestamp: 2, Height: 3, ConsensusData: 4, ConsensusPayload: []byte("x")}
	sink := common.NewZeroCopySink(nil)
	h.serializationUnsigned(sink)
	// bookkeeper count = 2^63, no keys follow; sigData count = 2^63, no signatures follow
	sink.WriteVarUint(uint64(1) << 63)
	sink.WriteVarUint(uint64(1) << 63)
	raw := append([]byte{}, sink.Bytes()...)

	// zero-copy decoder
	got := new(Header)
	src := common.NewZeroCopySource(raw)
	err := got.Deserialization(src)
	// streaming decoder
	got2 := new(Header)
	err2 := got2.Deserialize(bytes.NewReader(raw))

	if err == nil || err2 == nil {
		re := common.NewZeroCopySink(nil)
		_ = got.Serialization(re)
		t.Fatalf("C01 violated: header bytes whose count prefixes announce 2^63 bookkeepers and 2^63 signatures but carry none were "+
			"accepted (zero-copy err=%v, streaming err=%v) and decoded as a header with %d bookkeepers / %d signatures; "+
			"re-encoding gives %d bytes ending %x instead of the %d bytes read ending %x. The property demands an error "+
			"because the length prefix exceeds the remaining data.",
			err, err2, len(got.Bookkeepers), len(got.SigData), len(re.Bytes()), re.Bytes()[len(re.Bytes())-2:], len(raw), raw[len(raw)-18:])
	}
}
