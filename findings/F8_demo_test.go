package common_test

// Demonstration of finding F8 (property C18): the BTC header-sync router installs a side chain's
// trust root for a transaction that is witnessed by nobody but an arbitrary account, although the
// operation is reserved to the consensus operator. Runs as an external package because the btc
// package's own test files do not compile. Place in native/service/header_sync/common/ (external test package common_test).

import (
	"bytes"
	"encoding/binary"
	"testing"

	"github.com/btcsuite/btcd/chaincfg"
	"github.com/btcsuite/btcd/wire"
	"github.com/polynetwork/poly/common"
	"github.com/polynetwork/poly/core/store/leveldbstore"
	"github.com/polynetwork/poly/core/store/overlaydb"
	"github.com/polynetwork/poly/core/types"
	"github.com/polynetwork/poly/native"
	"github.com/polynetwork/poly/native/service/header_sync/btc"
	scom "github.com/polynetwork/poly/native/service/header_sync/common"
	"github.com/polynetwork/poly/native/service/utils"
	"github.com/polynetwork/poly/native/storage"
)

func TestF8BtcGenesisNeedsOperator(t *testing.T) {
	var buf bytes.Buffer
	_ = chaincfg.TestNet3Params.GenesisBlock.Header.BtcEncode(&buf, wire.ProtocolVersion, wire.LatestEncoding)
	hb := make([]byte, 4)
	binary.BigEndian.PutUint32(hb, 0)
	params := &scom.SyncGenesisHeaderParam{ChainID: 1, GenesisHeader: append(buf.Bytes(), hb...)}
	sink := common.NewZeroCopySink(nil)
	params.Serialization(sink)

	store, _ := leveldbstore.NewMemLevelDBStore()
	db := storage.NewCacheDB(overlaydb.NewOverlayDB(store))
	stranger := common.Address{9, 9, 9} // not the consensus operator: no validator pool exists at all
	tx := &types.Transaction{SignedAddr: []common.Address{stranger}}
	ns, _ := native.NewNativeService(db, tx, 0, 0, common.Uint256{}, 0, sink.Bytes(), false)

	err := btc.NewBTCHandler().SyncGenesisHeader(ns)
	stored, _ := db.Get(utils.ConcatKey(utils.HeaderSyncContractAddress, []byte(scom.GENESIS_HEADER), utils.GetUint64Bytes(1)))
	if err == nil || stored != nil {
		t.Fatalf("BTC trust root installed without the consensus operator's witness (err=%v, stored=%d bytes)", err, len(stored))
	}
}
