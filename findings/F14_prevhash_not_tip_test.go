package ledgerstore

// belongs in: core/store/ledgerstore   (go test -vet=off -run TestF14 ./core/store/ledgerstore/)
// F14 (C13): a block is committed at the next height although its previous-block hash is not the current tip.
// verifyHeader looks the parent up by hash (header cache first, then the block store) and only compares heights; a
// header that was accepted into the header cache at the tip's height but is not the block committed there serves
// as "parent". The block root (which does commit to the real history) is computed from the store, so it matches.
// History: header F1 (height 1) is synced ahead of its block; a different block B1 is committed at height 1 (both
// carry enough signatures - with four validators the legacy rule asks for one); then B2 arrives with
// PrevBlockHash = hash(F1). (Harness adapted from a seeded-change demo.)

import (
	"crypto/elliptic"
	"encoding/json"
	"testing"

	"github.com/ontio/ontology-crypto/ec"
	"github.com/ontio/ontology-crypto/keypair"
	s "github.com/ontio/ontology-crypto/signature"
	"github.com/polynetwork/poly/account"
	"github.com/polynetwork/poly/common"
	"github.com/polynetwork/poly/common/config"
	vconfig "github.com/polynetwork/poly/consensus/vbft/config"
	"github.com/polynetwork/poly/core/genesis"
	"github.com/polynetwork/poly/core/signature"
	"github.com/polynetwork/poly/core/types"
)

// f14Account builds a deterministic P-256 account from a one byte seed.
func f14Account(seed byte) *account.Account {
	d := make([]byte, 32)
	for i := range d {
		d[i] = seed
	}
	pri := &ec.PrivateKey{Algorithm: ec.ECDSA, PrivateKey: ec.ConstructPrivateKey(d, elliptic.P256())}
	pub := pri.Public().(keypair.PublicKey)
	return &account.Account{
		PrivateKey: pri,
		PublicKey:  pub,
		Address:    types.AddressFromPubKey(pub),
		SigScheme:  s.SHA256withECDSA,
	}
}

// f14Ledger creates a fresh ledger (own directory) with a vbft genesis block whose
// consensus peers are four deterministic accounts controlled by the test.
func f14Ledger(t *testing.T) (*LedgerStoreImp, []*account.Account, *types.Block) {
	accs := []*account.Account{f14Account(0x11), f14Account(0x22), f14Account(0x33), f14Account(0x44)}
	peers := make([]*config.VBFTPeerInfo, 0, len(accs))
	pubs := make([]keypair.PublicKey, 0, len(accs))
	for i, a := range accs {
		peers = append(peers, &config.VBFTPeerInfo{
			Index:      uint32(i + 1),
			PeerPubkey: vconfig.PubkeyID(a.PublicKey),
			Address:    a.Address.ToBase58(),
		})
		pubs = append(pubs, a.PublicKey)
	}
	oldGenesis := config.DefConfig.Genesis
	config.DefConfig.Genesis = &config.GenesisConfig{
		SeedList:      []string{},
		ConsensusType: config.CONSENSUS_TYPE_VBFT,
		VBFT: &config.VBFTConfig{
			BlockMsgDelay:        10000,
			HashMsgDelay:         10000,
			PeerHandshakeTimeout: 10,
			MaxBlockChangeView:   1000,
			VrfValue:             oldGenesis.VBFT.VrfValue,
			VrfProof:             oldGenesis.VBFT.VrfProof,
			Peers:                peers,
		},
		DBFT: &config.DBFTConfig{},
		SOLO: &config.SOLOConfig{},
	}
	t.Cleanup(func() { config.DefConfig.Genesis = oldGenesis })

	gen, err := genesis.BuildGenesisBlock(pubs, config.DefConfig.Genesis)
	if err != nil {
		t.Fatalf("BuildGenesisBlock: %s", err)
	}
	ls, err := NewLedgerStore(t.TempDir())
	if err != nil {
		t.Fatalf("NewLedgerStore: %s", err)
	}
	t.Cleanup(func() { ls.Close() })
	if err := ls.InitLedgerStoreWithGenesisBlock(gen, pubs); err != nil {
		t.Fatalf("InitLedgerStoreWithGenesisBlock: %s", err)
	}
	return ls, accs, gen
}

// f14Block builds a block on top of the current tip of ls, signed by all peers.
// blockRoot==nil means "use the correct accumulator root".
func f14Block(t *testing.T, ls *LedgerStoreImp, accs []*account.Account, timestamp uint32, nonce uint64, blockRoot *common.Uint256) *types.Block {
	height, prev := ls.GetCurrentBlock()
	root := ls.GetBlockRootWithPreBlockHashes(height+1, []common.Uint256{prev})
	if blockRoot != nil {
		root = *blockRoot
	}
	payload, err := json.Marshal(&vconfig.VbftBlockInfo{Proposer: 1, LastConfigBlockNum: 0})
	if err != nil {
		t.Fatal(err)
	}
	hdr := &types.Header{
		Version:          types.CURR_HEADER_VERSION,
		ChainID:          config.GetChainIdByNetId(config.DefConfig.P2PNode.NetworkId),
		PrevBlockHash:    prev,
		BlockRoot:        root,
		Timestamp:        timestamp,
		Height:           height + 1,
		ConsensusData:    nonce,
		ConsensusPayload: payload,
	}
	blk := &types.Block{Header: hdr, Transactions: []*types.Transaction{}}
	blk.RebuildMerkleRoot()
	h := blk.Hash()
	for _, a := range accs {
		sig, err := signature.Sign(a, h[:])
		if err != nil {
			t.Fatalf("sign: %s", err)
		}
		hdr.Bookkeepers = append(hdr.Bookkeepers, a.PublicKey)
		hdr.SigData = append(hdr.SigData, sig)
	}
	return blk
}

// f14Commit runs the consensus path ExecuteBlock + SubmitBlock.
func f14Commit(ls *LedgerStoreImp, blk *types.Block) error {
	res, err := ls.ExecuteBlock(blk)
	if err != nil {
		return err
	}
	return ls.SubmitBlock(blk, res)
}


func TestF14PrevHashMustBeTheTip(t *testing.T) {
	ls, accs, gen := f14Ledger(t)
	base := gen.Header.Timestamp
	// F1: a header for height 1, accepted by header sync only
	f1 := f14Block(t, ls, accs, base+1000, 1, nil)
	if err := ls.AddHeader(f1.Header); err != nil {
		t.Fatalf("AddHeader(F1): %v", err)
	}
	// B1: a different block for height 1, committed
	b1 := f14Block(t, ls, accs, base+2000, 2, nil)
	if b1.Hash() == f1.Hash() {
		t.Fatal("test setup: F1 and B1 must differ")
	}
	if err := ls.AddBlock(b1, common.UINT256_EMPTY); err != nil {
		// the consensus path
		if err2 := f14Commit(ls, b1); err2 != nil {
			t.Fatalf("commit B1: %v / %v", err, err2)
		}
	}
	if h := ls.GetCurrentBlockHeight(); h != 1 || ls.GetCurrentBlockHash() != b1.Hash() {
		t.Fatalf("tip should be B1 at height 1, is height %d", h)
	}
	// B2 built on the tip, then re-pointed at F1 and re-signed
	b2 := f14Block(t, ls, accs, base+3000, 3, nil)
	b2.Header.PrevBlockHash = f1.Hash()
	// the root check extends the stored accumulator by the block's own PrevBlockHash, so the sender uses the same rule
	b2.Header.BlockRoot = ls.GetBlockRootWithPreBlockHashes(2, []common.Uint256{f1.Hash()})
	b2.Header.Bookkeepers, b2.Header.SigData = nil, nil
	b2 = f14Resign(t, b2, accs)
	err := f14Commit(ls, b2)
	if ls.GetCurrentBlockHeight() == 2 {
		b1h := b1.Hash()
		t.Errorf("block committed at height 2 with PrevBlockHash %x..., but the tip at height 1 is %x... (commit error: %v)",
			b2.Header.PrevBlockHash[:8], b1h[:8], err)
	}
}

// f14Resign recomputes the block hash after a header edit and signs it with all peers.
func f14Resign(t *testing.T, blk *types.Block, accs []*account.Account) *types.Block {
	hdr := *blk.Header
	hdr.Bookkeepers, hdr.SigData = nil, nil
	nb := &types.Block{Header: &hdr, Transactions: blk.Transactions}
	h := nb.Hash()
	for _, a := range accs {
		sig, err := signature.Sign(a, h[:])
		if err != nil {
			t.Fatalf("sign: %s", err)
		}
		hdr.Bookkeepers = append(hdr.Bookkeepers, a.PublicKey)
		hdr.SigData = append(hdr.SigData, sig)
	}
	return nb
}
