// belongs in: consensus/vbft  (the package's own _test.go files do not build; mask them with an overlay:
//   go test -overlay ov.json -vet=off -run TestF12 ./consensus/vbft/   with ov.json = {"Replace": {"<each existing *_test.go>": "", "<repo>/consensus/vbft/zz_f12_test.go": "<this file>"}} )
package vbft

import "testing"

// F12 (C41): commitDone counts the empty-block vote of a participant that is not an endorser of the round twice
// (once in the "not from endorser" block, once more in the ordinary tally below it).
// N = 7, C = 2: the signature path needs more than N-1-C = 4 votes. Five participants endorse proposer 1, three of
// them also voted for the empty block. Three distinct empty votes are not more than four, so the commit must not be
// reported as a commit of the empty block - whatever order the map is walked in.
func TestF12CommitDoneCountsEmptyVotesOnce(t *testing.T) {
	srv := &Server{currentParticipantConfig: &BlockParticipantConfig{Endorsers: []uint32{}}}
	for run := 0; run < 300; run++ {
		cand := &CandidateInfo{EndorseSigs: map[uint32][]*CandidateEndorseSigInfo{}}
		for e := uint32(2); e <= 6; e++ {
			l := []*CandidateEndorseSigInfo{{EndorsedProposer: 1, Signature: []byte{1}}}
			if e <= 4 {
				l = append(l, &CandidateEndorseSigInfo{EndorsedProposer: 1, Signature: []byte{2}, ForEmpty: true})
			}
			cand.EndorseSigs[e] = l
		}
		pool := &BlockPool{server: srv, candidateBlocks: map[uint32]*CandidateInfo{10: cand}}
		proposer, forEmpty, done := pool.commitDone(10, 2, 7)
		if !done || proposer != 1 {
			t.Fatalf("run %d: expected commit for proposer 1, got proposer=%d done=%v", run, proposer, done)
		}
		if forEmpty {
			t.Fatalf("run %d: reported as commit of the EMPTY block with only 3 of 7 participants voting empty (more than 4 needed)", run)
		}
	}
}
