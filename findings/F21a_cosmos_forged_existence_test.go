// F21 (C30): written by an audit sub-agent, confirmed against the real code before the fix; belongs in native/service/cross_chain_manager/cosmos resp. okex.
package cosmos

// Audit A5, property C30 (second sentence): "A deposit from such a chain is
// accepted only if the submitted message is proven to exist (not merely proven
// absent) in the state committed by a header verified the same way."
//
// The cosmos router (and the okex router and heimdall VerifySpan, which use the
// same rootmulti.DefaultProofRuntime) verify "iavl:v" proof operators with
// github.com/tendermint/iavl v0.14.0 (pinned through cosmos-sdk v0.39.1).
// RangeProof verification in that version lets a relayer graft an arbitrary
// extra leaf onto a genuine proof: ProofInnerNode.Hash ignores Right whenever
// Left is set, while RangeProof._computeRootHash treats a non-empty Right as
// "the next leaves hash to this", so setting Right := hash(forged leaf) on an
// inner node that already carries Left leaves the computed root unchanged and
// makes the forged leaf "verified". VerifyItem then finds the forged key/value.
//
// The test takes the genuine header + proof used by the package's own
// TestProofHandle (cosmos chain "cc-cosmos", height 158266), checks that the
// genuine message is accepted, then submits a message that was never written to
// the source chain together with the doctored proof. MakeDepositProposal
// accepts it.

import (
	"bytes"
	"encoding/hex"
	"testing"

	"github.com/polynetwork/poly/common"
	"github.com/polynetwork/poly/core/store/leveldbstore"
	"github.com/polynetwork/poly/core/store/overlaydb"
	"github.com/polynetwork/poly/core/types"
	"github.com/polynetwork/poly/native"
	ccmcom "github.com/polynetwork/poly/native/service/cross_chain_manager/common"
	synccom "github.com/polynetwork/poly/native/service/header_sync/cosmos"
	"github.com/polynetwork/poly/native/storage"
	"github.com/tendermint/iavl"
	"github.com/tendermint/tendermint/crypto/merkle"
	"github.com/tendermint/tendermint/crypto/tmhash"
)

const (
	a5GenesisHeader158265 = "0aaa020a02080a120963632d636f736d6f7318b9d409220b08f4caa0f80510938acd582a480a207923c1a8915f5cada506fea0546448e3efbe020fc753c00b21b1a64cc3ce80df12240801122066e362ca5f6ca4f9f8018be4ceb2a496e7a9f610b5ca667b7dbcf71a58b76928322061f85cd26b4e0a1c67ea44c01952b1bb20fa4fa3be03dbee3b4c6f21a791302742202ba25d7ae03b9152a4d8c4ab317ddb7bb3fcb834384ced538262e25834e6dcf14a202ba25d7ae03b9152a4d8c4ab317ddb7bb3fcb834384ced538262e25834e6dcf15220048091bc7ddc283f77bfbf91d73c44da58c3df8a9cbc867405d8b7f3daada22f5a202e63b1a0d5253c4ac9155078c8af0a1143e141f76b30bf02e877d50ffb493bbd72147f6abffe3fcf4afe3ce80e3080b749e170edbd24128c0308b9d4091a480a200b4a771c5506d5f860cc6f382fb4b0595aa857f92770419ad60a41156b19a47f1224080112203e315512893270ae79fdcdb53c210ded93815246a4e09baf6c2dfef5a26fd18e2268080212143a91887425aa1f560e2badd6e538d4baf7fa00501a0c08f9caa0f80510d89f82ec012240ba168ad6e1338bead146843cf7f8aad498cc8380c4bfea0ded39a9f4d9c7dd8f81f1f74bca536248de657551acc7912ab9d716669e728f46267007decee1810b2268080212147f6abffe3fcf4afe3ce80e3080b749e170edbd241a0c08f9caa0f80510e7b48eff012240512f3802e7381917d0dc99a12e500d8e562e4ac9e4751873eee99361277fe08773956a58fe3897b9a698e8acaa131a2903f63c20f319326ace787df0ffc5cc03226808021214e069c1227791131227fc946bee54eec2a39e191a1a0c08f9caa0f8051087a6bbed0122401b0bed5bcd5e9802815f60632d3bbc05b312059f8ae6034e32c2645a420fa711d162360f48212ca322458ea58cdca00367755aca03d8f3a1662058d6affa90001a4a0a143a91887425aa1f560e2badd6e538d4baf7fa005012251624de6420166388e0880ac8085074b64568310429f81252b6a93c05e1194a3108b2563d341864209cffffffffffffffff011a4a0a147f6abffe3fcf4afe3ce80e3080b749e170edbd2412251624de6420de052c42d0dc18e1bc64dc002a19214d537b83ae80afa9893a98352a7f2f025d1864209cffffffffffffffff011a420a14e069c1227791131227fc946bee54eec2a39e191a12251624de642095d57297855fdfb0e90a9193ce08c35d5eca6f555a4865803ba7ab4493b696c0186420c801"
	a5Header158266        = "0aab020a02080a120963632d636f736d6f7318bad409220c08f9caa0f8051087a6bbed012a480a200b4a771c5506d5f860cc6f382fb4b0595aa857f92770419ad60a41156b19a47f1224080112203e315512893270ae79fdcdb53c210ded93815246a4e09baf6c2dfef5a26fd18e3220574b32fd389adcc8859daba476617fd8a7b01beb71569d6d4d9b0fb2cea52fc142202ba25d7ae03b9152a4d8c4ab317ddb7bb3fcb834384ced538262e25834e6dcf14a202ba25d7ae03b9152a4d8c4ab317ddb7bb3fcb834384ced538262e25834e6dcf15220048091bc7ddc283f77bfbf91d73c44da58c3df8a9cbc867405d8b7f3daada22f5a203de956dd11723d5156d5f1a5cd699ea0f90e12a0226cfb1d9ba9370a997b1cf37214e069c1227791131227fc946bee54eec2a39e191a128c0308bad4091a480a20df4b9fb65ad659fbb30c19d95db808facee2d8bd0f8813a00c1700008f5fdc251224080112201bace219166e7795bc43b46ce13763a48a428a56e5e77f61d60a5d57557b1a612268080212143a91887425aa1f560e2badd6e538d4baf7fa00501a0c08fecaa0f80510a9a78a990322402f18580f66f09a9ace3a9603b548d44d5a0c6bb1a0cf1e13dea8da33fd54cddcb5b3e8fe3183f55b1d41f38a974679341b9cbb620f6facb93221a7070154fa072268080212147f6abffe3fcf4afe3ce80e3080b749e170edbd241a0c08fecaa0f80510bbc1f6aa03224041689ac9485674d15b668b505ffd068d314302213fb0c65cd18ecc56273f9e46ac29b644c638784b2eaf192b09940519ea336a34357d23f5321005962dafe40f226808021214e069c1227791131227fc946bee54eec2a39e191a1a0c08fecaa0f80510c3d0939a032240bb9afa5da243f9d31120f9cde6ebf19f4ab3ea17f93136d093379901820978c4c6f102694f6e8e45923b129531aeb2e707944972d9ae8442816a879d5b2bf10b1a3f0a143a91887425aa1f560e2badd6e538d4baf7fa005012251624de6420166388e0880ac8085074b64568310429f81252b6a93c05e1194a3108b2563d3418641a3f0a147f6abffe3fcf4afe3ce80e3080b749e170edbd2412251624de6420de052c42d0dc18e1bc64dc002a19214d537b83ae80afa9893a98352a7f2f025d18641a3f0a14e069c1227791131227fc946bee54eec2a39e191a12251624de642095d57297855fdfb0e90a9193ce08c35d5eca6f555a4865803ba7ab4493b696c01864"
	a5GenuineProof        = "0af8060a066961766c3a761221010cff2e4b056a7b60706a8b04a9644c0b3f64eb45b91207e3250fbf0b63fe2fea1aca06c8060ac5060a2c082c10c5e81418ead3092a20972ce346217e2816d6656a653139eb5da9df1b6aba887748805d8d427d1577720a2c082a10b5920918ead3092a20371ca08defc0d5398dc142a22728e0e70c75d7507dfb5bb0b00619821df061820a2c082610fbad0318ead3092a20779899f4f63ee075b9f9c91445852573b8f1625f06f6e0e280a54ee9c53a95ad0a2c082410c7d00118ead3092a20265b7e16940e4ddffbd6c58fc38a700a4677bd206092e57d6c032873947eabb00a2b082010e55418ead309222073b0934005c30dedd32076d4cde64d368f61e694d806c42dc2f11b57c98047330a2b081e10be2518ead30922204b8222f4e53f53aff819b4cde10e8d7e03b7f9bcee0a799fd81db26a04acda600a2b081c10f91018ead3092a20d6ecfd8bfb9e7fb5942f4fceb011c071c1dca484ef5cdbbb2dc43751b955bfa50a2b081810e00618ead3092a209f1ee19951fa6290176e3b2a01b89bc80300472455d2712622abba61abfd494c0a2b081410850318ead3092a20dce62197fa36c33fc9bbf34bc375f97505d1e4a9fbfef2ba276f9628b024e2f30a2b081210bc0118ead3092220a9b7297d892985030be8dbe7fe749819b0c18bdd470eec4aecbb3151532b8ee00a2a0810106218ead30922202499b57c97dca2cd39f6ada9e4ee9cf4a2cf08a058f939ab2d20ac0cbe9d74620a2a080e103518ead309222017a18df6ff2f05488f75e72f13e772246c433a548590c5eee68ee20c7d65db630a2a080c102118ead3092220f3f0446557d058f0174deb5be115a550a3c636c49782f1c1acbf6e6443139c8b0a2a080a101118ead3092a20c649987a077a2c94b15648c326a024f47301f047f138b00c209ed2d66f0a95780a2a0806100718ead30922209c5f8b85d3803d31a45526bde38e6e32885a60e5f06c0d7c6ccc2463117900310a2a0804100418ead3092a20e41c3ee9e92ade194864a9a57dfc046388850ab3948a42a22739495f3ad8b5bd0a2a0802100218ead3092220b5e03ff6caf94b3974801718848ebe4dd93b74a22185c037b65b6ba943193c491a490a21010cff2e4b056a7b60706a8b04a9644c0b3f64eb45b91207e3250fbf0b63fe2fea12200cff2e4b056a7b60706a8b04a9644c0b3f64eb45b91207e3250fbf0b63fe2fea18ead3090af3050a0a6d756c746973746f7265120363636d1adf05dd050ada050a0c0a02667412060a0408b9d4090a330a077374616b696e6712280a2608b9d4091220b1a7eb220985230ad9eba03c47f3bd2f50c97786f3d6b44e8da02bb5b52199130a2f0a03676f7612280a2608b9d409122060cd137c1962ecac616389d68034833f2921509c2d285aa5f5153997ce968a740a350a096c6f636b70726f787912280a2608b9d4091220d2f0be6c9705f890c8e36ccef34689ac12a97df0c3cf0ad47bb3a24ebc5de1c90a2f0a0361636312280a2608b9d40912209d61df98e62da7252fabd3d01c43a2817a5dbdc5ca0049ebb48c1a3905df028c0a300a046d61696e12280a2608b9d4091220b19cf098b43b3c7d54799fef0944aa95099f82ddc219fa0c8092e452a282bf410a320a06706172616d7312280a2608b9d40912207737db314fdce9b7f9c4465cef7907beba483ddd91ce8198110232d3e54ca5bd0a320a06737570706c7912280a2608b9d40912202ee92cfcc9864b3162a2e55cefaf01affde2ef8d5b1c5783ad65de0619865efd0a380a0c646973747269627574696f6e12280a2608b9d40912204756c628aab3ddcc79270d54a203a67b8ee29a7687d6d622eac94037126fa6c90a360a0a68656164657273796e6312280a2608b9d409122077d4041830be3efb87398e0cd9d498a79dd8ec64f61f11f0b546e3e0a0ac29550a300a046d696e7412280a2608b9d409122071910be7aac211a257acc9911163af5d2df5adcf44ed4ae74296a64a6dd474350a110a077570677261646512060a0408b9d4090a340a08736c617368696e6712280a2608b9d409122043e97c84e24fc993fc0cefdf997259780d3cf98ed6fe08ebdc558d4076a4dabd0a300a046274637812280a2608b9d409122005927576dd48ec703d3e7e19a953c4f11c4663c85442d5dd4d29d5c4b756e4090a2f0a0363636d12280a2608b9d409122087f352a3daf136c825bdbdcd8a0bd19aa43106b22307d4cc366f8aaece1c2c400a120a0865766964656e636512060a0408b9d409"
	a5GenuineValue        = "0a542f63636d2f2530312530432546462e4b2530356a253742253630706a253842253034254139644c25304225334664254542452542392531322530372545332532352530462542462530426325464525324625454112a9012042b9a0d08f76be124dcc3026a5f7fe228fada451c21184d654fffe662e7086530302987714f71b55ef55cedc91fd007f7a9ba386ec978f3aa8030000000000000014b7041bc96b15da728fdfc1c47cbfc687b845adeb06756e6c6f636b4a14000000000000000000000000000000000000000114f3b8a17f1f957f60c88f105e32ebff3f022e56a44500000000000000000000000000000000000000000000000000000000000000"

	a5ChainID = uint64(5)
	a5Height  = uint32(158266)
)

func a5Hex(t *testing.T, s string) []byte {
	b, err := hex.DecodeString(s)
	if err != nil {
		t.Fatalf("bad hex: %v", err)
	}
	return b
}

// a5NewService builds a native service over a fresh in-memory ledger whose only
// content is the trusted cosmos epoch record for chain 5, exactly what the
// operator-only SyncGenesisHeader stores for genesis header 158265.
func a5NewService(t *testing.T, input []byte) *native.NativeService {
	store, err := leveldbstore.NewMemLevelDBStore()
	if err != nil {
		t.Fatal(err)
	}
	db := storage.NewCacheDB(overlaydb.NewOverlayDB(store))
	ns, err := native.NewNativeService(db, &types.Transaction{}, 0, 0, common.Uint256{}, 0, input, false)
	if err != nil {
		t.Fatal(err)
	}
	var genesis synccom.CosmosHeader
	if err := synccom.Cdc.UnmarshalBinaryBare(a5Hex(t, a5GenesisHeader158265), &genesis); err != nil {
		t.Fatalf("decode genesis header: %v", err)
	}
	synccom.PutEpochSwitchInfo(ns, a5ChainID, &synccom.CosmosEpochSwitchInfo{
		Height:             genesis.Header.Height,
		NextValidatorsHash: genesis.Header.NextValidatorsHash,
		ChainID:            genesis.Header.ChainID,
		BlockHash:          synccom.HashCosmosHeader(genesis.Header),
	})
	return ns
}

func a5Entrance(t *testing.T, proof, extra []byte) []byte {
	p := &ccmcom.EntranceParam{
		SourceChainID:         a5ChainID,
		Height:                a5Height,
		Proof:                 proof,
		RelayerAddress:        []byte{1},
		Extra:                 extra,
		HeaderOrCrossChainMsg: a5Hex(t, a5Header158266),
	}
	sink := common.NewZeroCopySink(nil)
	p.Serialization(sink)
	return sink.Bytes()
}

func TestAuditA5CosmosDepositAcceptsForgedExistenceProof(t *testing.T) {
	handler := NewCosmosHandler()

	// 0. Baseline: the genuine proof/value pair is accepted (the data is real,
	// the header carries a real >2/3 commit).
	{
		ns := a5NewService(t, a5Entrance(t, a5Hex(t, a5GenuineProof), a5Hex(t, a5GenuineValue)))
		if _, err := handler.MakeDepositProposal(ns); err != nil {
			t.Fatalf("setup: genuine deposit is not accepted: %v", err)
		}
	}

	// 1. The message the relayer wants accepted. It was never stored on the
	// source chain: neither its key nor its bytes occur in the genuine proof.
	forged := &ccmcom.MakeTxParam{
		TxHash:              bytes.Repeat([]byte{0xAA}, 32),
		CrossChainID:        bytes.Repeat([]byte{0xBB}, 32),
		FromContractAddress: bytes.Repeat([]byte{0xCC}, 20),
		ToChainID:           2,
		ToContractAddress:   bytes.Repeat([]byte{0xDD}, 20),
		Method:              "unlock",
		Args:                []byte("pay the attacker 1000000000"),
	}
	vs := common.NewZeroCopySink(nil)
	forged.Serialization(vs)
	forgedValue := vs.Bytes()
	forgedKey := append([]byte{0x01}, bytes.Repeat([]byte{0xFF}, 32)...)

	// 2. Doctor the genuine proof.
	var genuine merkle.Proof
	if err := synccom.Cdc.UnmarshalBinaryBare(a5Hex(t, a5GenuineProof), &genuine); err != nil {
		t.Fatalf("decode genuine proof: %v", err)
	}
	if len(genuine.Ops) != 2 || genuine.Ops[0].Type != iavl.ProofOpIAVLValue {
		t.Fatalf("unexpected genuine proof layout")
	}
	opi, err := iavl.ValueOpDecoder(genuine.Ops[0])
	if err != nil {
		t.Fatal(err)
	}
	vop := opi.(iavl.ValueOp)
	rp := vop.Proof
	if len(rp.Leaves) != 1 || len(rp.LeftPath) == 0 {
		t.Fatalf("unexpected genuine range proof layout")
	}
	for _, l := range rp.Leaves {
		if bytes.Equal(l.Key, forgedKey) {
			t.Fatalf("forged key unexpectedly present in the genuine proof")
		}
	}
	last := len(rp.LeftPath) - 1
	if len(rp.LeftPath[last].Left) == 0 || len(rp.LeftPath[last].Right) != 0 {
		t.Fatalf("setup: expected the genuine leaf to be a right child")
	}
	genuineRoot := rp.ComputeRootHash()

	forgedLeaf := iavl.ProofLeafNode{Key: forgedKey, ValueHash: tmhash.Sum(forgedValue), Version: 1}
	doctored := &iavl.RangeProof{
		LeftPath:   append(iavl.PathToLeaf{}, rp.LeftPath...),
		InnerNodes: []iavl.PathToLeaf{{}},
		Leaves:     []iavl.ProofLeafNode{rp.Leaves[0], forgedLeaf},
	}
	doctored.LeftPath[last].Right = forgedLeaf.Hash() // ignored by Hash() because Left is set
	if !bytes.Equal(doctored.ComputeRootHash(), genuineRoot) {
		t.Fatalf("setup: doctored proof does not keep the genuine store root")
	}

	forgedProof := merkle.Proof{Ops: []merkle.ProofOp{
		iavl.NewValueOp(forgedKey, doctored).ProofOp(),
		genuine.Ops[1], // genuine multistore op, untouched
	}}
	forgedProofBz, err := synccom.Cdc.MarshalBinaryBare(forgedProof)
	if err != nil {
		t.Fatal(err)
	}
	extra, err := synccom.Cdc.MarshalBinaryBare(CosmosProofValue{
		Kp:    "/ccm/x:" + hex.EncodeToString(forgedKey),
		Value: forgedValue,
	})
	if err != nil {
		t.Fatal(err)
	}

	// 3. Submit it with the genuine, properly signed header.
	ns := a5NewService(t, a5Entrance(t, forgedProofBz, extra))
	got, err := handler.MakeDepositProposal(ns)
	if err == nil {
		t.Fatalf("C30 violated: cosmos MakeDepositProposal accepted a message that does not exist in the "+
			"state committed by header %d (key %x, method %q, args %q, toChain %d). The proof is a genuine "+
			"existence proof for a different key with one extra leaf grafted on; the property demands that a "+
			"deposit is accepted only if the submitted message is proven to exist in the committed state.",
			a5Height, forgedKey, got.Method, got.Args, got.ToChainID)
	}
	t.Logf("forged proof rejected as required: %v", err)
}
