package side_chain_manager

// Demonstration for finding F1b (property C04: "malformed bytes are rejected without panicking");
// place in native/service/governance/side_chain_manager/ as zz_f1b_demo_test.go.
//
// BtcTxParam (a contract call parameter) and RippleExtraInfo (a persisted side-chain record field)
// read an element count with NextVarUint and passed it unchecked to make([][]byte, l): a count
// such as 2^62 panics (makeslice: len out of range) while a transaction is executed, i.e. on
// every node that executes the block.

import (
	"testing"

	"github.com/polynetwork/poly/common"
)

func TestF1bDecodersNeverPanic(t *testing.T) {
	for _, count := range []uint64{0xFFFFFFFFFFFFFFFF, 1 << 62, 1 << 45} {
		sink := common.NewZeroCopySink(nil)
		sink.WriteVarBytes([]byte{1}) // redeem script
		sink.WriteVarUint(2)          // redeem chain id
		sink.WriteVarUint(count)      // number of signatures that follow (none does)
		func() {
			defer func() {
				if r := recover(); r != nil {
					t.Errorf("BtcTxParam, count %#x: decoding panicked: %v", count, r)
				}
			}()
			if err := new(BtcTxParam).Deserialization(common.NewZeroCopySource(sink.Bytes())); err == nil {
				t.Errorf("BtcTxParam, count %#x: accepted", count)
			}
		}()

		sink = common.NewZeroCopySink(nil)
		sink.WriteAddress(common.Address{}) // operator
		sink.WriteUint64(1)                 // sequence
		sink.WriteUint64(1)                 // quorum
		sink.WriteUint64(1)                 // signer number
		sink.WriteVarUint(count)            // number of public keys that follow (none does)
		func() {
			defer func() {
				if r := recover(); r != nil {
					t.Errorf("RippleExtraInfo, count %#x: decoding panicked: %v", count, r)
				}
			}()
			if err := new(RippleExtraInfo).Deserialization(common.NewZeroCopySource(sink.Bytes())); err == nil {
				t.Errorf("RippleExtraInfo, count %#x: accepted", count)
			}
		}()
	}
}
