package polygon

// Demonstration for finding F11 (property C30); place in native/service/header_sync/polygon/ as
// zz_f11_demo_test.go.
//
// The Heimdall light client tallies, for every precommit of a commit, the voting power of the validator the
// precommit NAMES (commitSig.ValidatorIndex), not of the validator at the precommit's position as Tendermint
// does, and never checks that a validator is counted once. A commit that repeats ONE validator's valid
// precommit in all N positions therefore tallies N times that validator's power: with four validators of
// equal power, one signature (25 % of the power) passes the "more than two thirds" test.

import (
	"testing"
	"time"

	polygonTypes "github.com/polynetwork/poly/native/service/header_sync/polygon/types"
	"github.com/polynetwork/poly/native/service/header_sync/polygon/types/secp256k1"
)

func TestF11OneValidatorIsNotAQuorum(t *testing.T) {
	const chainID = "heimdall-f11"
	var privs []secp256k1.PrivKeySecp256k1
	var vals []*polygonTypes.Validator
	for i := 0; i < 4; i++ {
		p := secp256k1.GenPrivKeySecp256k1([]byte{byte('a' + i), 'f', '1', '1'})
		privs = append(privs, p)
		vals = append(vals, polygonTypes.NewValidator(p.PubKey(), 100))
	}
	valset := polygonTypes.NewValidatorSet(vals)
	hdr := polygonTypes.Header{ChainID: chainID, Height: 10, Time: time.Unix(1600000000, 0).UTC(),
		ValidatorsHash: valset.Hash(), NextValidatorsHash: valset.Hash()}
	blockID := polygonTypes.BlockID{Hash: hdr.Hash()}

	// the validator at index 0 of the (sorted) set signs; nobody else does
	signerAddr, signer := valset.GetByIndex(0)
	var signerKey secp256k1.PrivKeySecp256k1
	for _, p := range privs {
		if p.PubKey().Equals(signer.PubKey) {
			signerKey = p
		}
	}
	vote := &polygonTypes.Vote{Type: polygonTypes.PrecommitType, Height: 10, Round: 0, BlockID: blockID,
		Timestamp: time.Unix(1600000001, 0).UTC(), ValidatorAddress: signerAddr, ValidatorIndex: 0}
	sig, err := signerKey.Sign(vote.SignBytes(chainID))
	if err != nil {
		t.Fatal(err)
	}
	vote.Signature = sig
	one := (*polygonTypes.CommitSig)(vote)

	info := &CosmosEpochSwitchInfo{Height: 1, NextValidatorsHash: valset.Hash(), ChainID: chainID}

	// control: the single precommit in its own position, the other three absent: 100 of 400 is no quorum
	honest := &CosmosHeader{Header: hdr, Valsets: valset.Validators,
		Commit: &polygonTypes.Commit{BlockID: blockID, Precommits: []*polygonTypes.CommitSig{one, nil, nil, nil}}}
	if err := VerifyCosmosHeader(honest, info); err == nil {
		t.Fatalf("control: a commit with one of four equal validators was accepted")
	}

	// the same single precommit repeated in every position
	forged := &CosmosHeader{Header: hdr, Valsets: valset.Validators,
		Commit: &polygonTypes.Commit{BlockID: blockID, Precommits: []*polygonTypes.CommitSig{one, one, one, one}}}
	if err := VerifyCosmosHeader(forged, info); err == nil {
		t.Errorf("a header whose commit carries ONE validator's signature (100 of 400 voting power), repeated four times, passed the two-thirds check")
	}
}
