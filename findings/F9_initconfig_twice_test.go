// belongs in: native/service/governance/node_manager   (go test -vet=off -run TestF9InitConfigTwice)
// F9 (C18): node_manager.InitConfig is a registered native method without a witness check. Its only guard,
// "initConfig is already executed", reads the key PEER_POOL without the view suffix, a key nothing ever writes
// (putPeerPoolMap always appends the view), so the guard never fires: after genesis, a transaction signed by
// any admitted sender can run InitConfig again and replace the consensus validator pool, the view and the
// consensus configuration. The test installs a genesis configuration, then has an unrelated key install a
// different one; the second call must fail and must leave the pool unchanged.
package node_manager

import (
	"strconv"
	"strings"
	"testing"

	"github.com/polynetwork/poly/account"
	"github.com/polynetwork/poly/common"
	"github.com/polynetwork/poly/common/config"
	vconfig "github.com/polynetwork/poly/consensus/vbft/config"
	"github.com/polynetwork/poly/core/store/leveldbstore"
	"github.com/polynetwork/poly/core/store/overlaydb"
	"github.com/polynetwork/poly/core/types"
	"github.com/polynetwork/poly/native"
	"github.com/polynetwork/poly/native/storage"
)

func f9Config(accts []*account.Account) []byte {
	c := &config.VBFTConfig{BlockMsgDelay: 10000, HashMsgDelay: 10000, PeerHandshakeTimeout: 10, MaxBlockChangeView: 1000,
		VrfValue: strings.Repeat("a", 128), VrfProof: strings.Repeat("b", 128)}
	for i, a := range accts {
		c.Peers = append(c.Peers, &config.VBFTPeerInfo{Index: uint32(i + 1), PeerPubkey: vconfig.PubkeyID(a.PublicKey), Address: a.Address.ToBase58()})
	}
	sink := common.NewZeroCopySink(nil)
	if err := c.Serialization(sink); err != nil {
		panic(err)
	}
	return sink.Bytes()
}

func f9NS(db *storage.CacheDB, height uint32, signer common.Address, args []byte) *native.NativeService {
	tx := &types.Transaction{SignedAddr: []common.Address{signer}}
	ns, err := native.NewNativeService(db, tx, 0, height, common.Uint256{}, 0, args, false)
	if err != nil {
		panic(err)
	}
	return ns
}

func TestF9InitConfigTwice(t *testing.T) {
	store, _ := leveldbstore.NewMemLevelDBStore()
	db := storage.NewCacheDB(overlaydb.NewOverlayDB(store))
	var genesis, attacker []*account.Account
	for i := 0; i < 4; i++ {
		genesis = append(genesis, account.NewAccount(strconv.Itoa(i)))
		attacker = append(attacker, account.NewAccount(strconv.Itoa(100+i)))
	}
	if _, err := InitConfig(f9NS(db, 0, common.ADDRESS_EMPTY, f9Config(genesis))); err != nil {
		t.Fatalf("genesis InitConfig failed: %v", err)
	}
	before, err := GetPeerPoolMap(f9NS(db, 0, common.ADDRESS_EMPTY, nil), 1)
	if err != nil {
		t.Fatal(err)
	}
	// a later transaction, signed by a key unrelated to the validators, runs InitConfig with its own validators
	_, err = InitConfig(f9NS(db, 1000, attacker[0].Address, f9Config(attacker)))
	after, gerr := GetPeerPoolMap(f9NS(db, 0, common.ADDRESS_EMPTY, nil), 1)
	if gerr != nil {
		t.Fatal(gerr)
	}
	for _, a := range attacker {
		if _, ok := after.PeerPoolMap[vconfig.PubkeyID(a.PublicKey)]; ok {
			t.Errorf("validator pool of view 1 now contains the second caller's key %s", vconfig.PubkeyID(a.PublicKey)[:16])
		}
	}
	for k := range before.PeerPoolMap {
		if _, ok := after.PeerPoolMap[k]; !ok {
			t.Errorf("genesis validator %s was dropped from the pool", k[:16])
		}
	}
	if err == nil {
		t.Errorf("a second InitConfig (unwitnessed, after genesis) succeeded")
	}
}
