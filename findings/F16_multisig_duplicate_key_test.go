// belongs in: core/validation (mask the package's stale test file with -overlay); F16 (C39): written by an audit sub-agent, confirmed before the fix.
package validation

import (
	"crypto/elliptic"
	"crypto/sha256"
	"testing"

	"github.com/ontio/ontology-crypto/ec"
	"github.com/ontio/ontology-crypto/keypair"
	s "github.com/ontio/ontology-crypto/signature"
	"github.com/polynetwork/poly/common"
	"github.com/polynetwork/poly/core/payload"
	"github.com/polynetwork/poly/core/types"
	ontErrors "github.com/polynetwork/poly/errors"
)

// C39: an m-of-n entry must carry valid signatures from m DISTINCT listed keys.
// signature.VerifyMultiSignature masks key *positions*, not keys, and neither it nor
// checkTransactionSignatures / EncodeMultiPubKeyProgramInto rejects a key list that names the
// same key twice. With PubKeys=[A,A,B], M=2 one signature by A, supplied twice, satisfies the
// "2-of-3" entry: only one distinct key signed.
func TestAuditMultiSigDuplicateKeyCountsTwice(t *testing.T) {
	mk := func(d byte) (*ec.PrivateKey, keypair.PublicKey) {
		p := ec.ConstructPrivateKey([]byte{d}, elliptic.P256())
		pri := &ec.PrivateKey{Algorithm: ec.ECDSA, PrivateKey: p}
		return pri, pri.Public().(keypair.PublicKey)
	}
	priA, pubA := mk(11)
	_, pubB := mk(12)

	utx := &types.Transaction{
		TxType:  types.Invoke,
		Nonce:   9,
		Payload: &payload.InvokeCode{Code: []byte("multisig")},
	}
	usink := common.NewZeroCopySink(nil)
	if err := utx.SerializeUnsigned(usink); err != nil {
		t.Fatal(err)
	}
	tmp := sha256.Sum256(usink.Bytes())
	txHash := sha256.Sum256(tmp[:])

	sigObj, err := s.Sign(s.SHA256withECDSA, priA, txHash[:], nil)
	if err != nil {
		t.Fatal(err)
	}
	sigA, err := s.Serialize(sigObj)
	if err != nil {
		t.Fatal(err)
	}

	utx.Sigs = []types.Sig{{
		PubKeys: []keypair.PublicKey{pubA, pubA, pubB},
		M:       2,
		SigData: [][]byte{sigA, sigA}, // the very same signature, twice
	}}
	tx, err := types.TransactionFromRawBytes(utx.ToArray())
	if err != nil {
		t.Skipf("decoder refused the duplicate key list (good): %v", err)
	}
	if tx.Hash() != common.Uint256(txHash) {
		t.Fatal("test setup: hash mismatch")
	}
	if code := VerifyTransaction(tx); code == ontErrors.ErrNoError {
		t.Fatalf("C39 violated: a 2-of-3 entry with key list [A,A,B] passed validation with signatures from ONE distinct key "+
			"(A's single signature supplied twice); the property demands valid signatures from m=2 distinct listed keys. attributed signers=%v",
			tx.SignedAddr)
	}
}
