// belongs in: native/service/header_sync/msc (mask the package's own tests with -overlay); F24 (C29): written by an audit sub-agent, confirmed before the fix.
package msc

// Audit test for property C29, msc (clique) router: "... a member of the validator set ... who has
// not sealed within the recent-signer window".
//
// snapshot() (header_sync/msc/header_sync.go) computes lastSeenHeight for the sealing signer in two
// stages: first while rebuilding the snapshot from the checkpoint header and the VOTE headers that
// follow it (these are the only headers reachable through LastVoteParentOrEpoch), and only
// `if lastSeenHeight == 0` by scanning the last len(signers)/2 real ancestors.  If the signer sealed
// the checkpoint header of the epoch (or any earlier vote header), stage one yields an OLD height,
// `if lastSeenHeight > 0 { return }` skips the real window scan, and verifySeal() then compares the
// new height against that stale height.  Such a signer can seal consecutive blocks for the rest of
// the epoch, i.e. a single authorized key is enough to extend the chain alone.

import (
	"bytes"
	"crypto/ecdsa"
	"encoding/json"
	"math/big"
	"sort"
	"testing"

	ecommon "github.com/ethereum/go-ethereum/common"
	"github.com/ethereum/go-ethereum/consensus/clique"
	etypes "github.com/ethereum/go-ethereum/core/types"
	"github.com/ethereum/go-ethereum/crypto"
	"github.com/ontio/ontology-crypto/keypair"
	"github.com/polynetwork/poly/account"
	"github.com/polynetwork/poly/common"
	vconfig "github.com/polynetwork/poly/consensus/vbft/config"
	"github.com/polynetwork/poly/core/genesis"
	"github.com/polynetwork/poly/core/states"
	"github.com/polynetwork/poly/core/store/leveldbstore"
	"github.com/polynetwork/poly/core/store/overlaydb"
	"github.com/polynetwork/poly/core/types"
	"github.com/polynetwork/poly/native"
	"github.com/polynetwork/poly/native/service/governance/node_manager"
	"github.com/polynetwork/poly/native/service/governance/side_chain_manager"
	scom "github.com/polynetwork/poly/native/service/header_sync/common"
	"github.com/polynetwork/poly/native/service/utils"
	"github.com/polynetwork/poly/native/storage"
)

const audit2ChainID = 78
const audit2Epoch = 100

var audit2Acct = account.NewAccount("")

func audit2Key(seed byte) *ecdsa.PrivateKey {
	b := bytes.Repeat([]byte{seed}, 32)
	k, err := crypto.ToECDSA(b)
	if err != nil {
		panic(err)
	}
	return k
}

func audit2NewDB() *storage.CacheDB {
	genesis.GenesisBookkeepers = []keypair.PublicKey{audit2Acct.PublicKey}
	store, _ := leveldbstore.NewMemLevelDBStore()
	db := storage.NewCacheDB(overlaydb.NewOverlayDB(store))
	sink := common.NewZeroCopySink(nil)
	view := &node_manager.GovernanceView{TxHash: common.UINT256_EMPTY}
	view.Serialization(sink)
	db.Put(utils.ConcatKey(utils.NodeManagerContractAddress, []byte(node_manager.GOVERNANCE_VIEW)), states.GenRawStorageItem(sink.Bytes()))
	peerPoolMap := &node_manager.PeerPoolMap{
		PeerPoolMap: map[string]*node_manager.PeerPoolItem{
			vconfig.PubkeyID(audit2Acct.PublicKey): {
				Address:    audit2Acct.Address,
				Status:     node_manager.ConsensusStatus,
				PeerPubkey: vconfig.PubkeyID(audit2Acct.PublicKey),
			},
		},
	}
	sink.Reset()
	peerPoolMap.Serialization(sink)
	db.Put(utils.ConcatKey(utils.NodeManagerContractAddress, []byte(node_manager.PEER_POOL), utils.GetUint32Bytes(0)), states.GenRawStorageItem(sink.Bytes()))
	return db
}

func audit2Native(t *testing.T, db *storage.CacheDB, args []byte) *native.NativeService {
	tx := &types.Transaction{SignedAddr: []common.Address{audit2Acct.Address}}
	ns, err := native.NewNativeService(db, tx, 0, 0, common.Uint256{0}, 0, args, false)
	if err != nil {
		t.Fatal(err)
	}
	return ns
}

// seal signs the header with key (clique seal hash) and stores the seal in Extra.
func audit2Seal(h *etypes.Header, key *ecdsa.PrivateKey) {
	sig, err := crypto.Sign(clique.SealHash(h).Bytes(), key)
	if err != nil {
		panic(err)
	}
	copy(h.Extra[len(h.Extra)-65:], sig)
}

func audit2Header(parent *etypes.Header, signersExtra []byte, difficulty int64, root ecommon.Hash) *etypes.Header {
	extra := make([]byte, 32)
	extra = append(extra, signersExtra...)
	extra = append(extra, make([]byte, 65)...)
	h := &etypes.Header{
		UncleHash:  etypes.CalcUncleHash(nil),
		Root:       root,
		Difficulty: big.NewInt(difficulty),
		Number:     big.NewInt(audit2Epoch),
		GasLimit:   8000000,
		Time:       1000,
		Extra:      extra,
	}
	if parent != nil {
		h.ParentHash = parent.Hash()
		h.Number = new(big.Int).Add(parent.Number, big.NewInt(1))
		h.Time = parent.Time + 1
	}
	return h
}

func audit2Sync(t *testing.T, db *storage.CacheDB, h *etypes.Header) error {
	raw, err := json.Marshal(h)
	if err != nil {
		t.Fatal(err)
	}
	p := &scom.SyncBlockHeaderParam{ChainID: audit2ChainID, Address: audit2Acct.Address, Headers: [][]byte{raw}}
	sink := common.NewZeroCopySink(nil)
	p.Serialization(sink)
	return NewHandler().SyncBlockHeader(audit2Native(t, db, sink.Bytes()))
}


func TestAuditMscRecentSignerWindowBypass(t *testing.T) {
	mockSigner = ecommon.Address{}

	keys := map[ecommon.Address]*ecdsa.PrivateKey{}
	var signers []ecommon.Address
	for _, s := range []byte{1, 2, 3} {
		k := audit2Key(s)
		a := crypto.PubkeyToAddress(k.PublicKey)
		keys[a] = k
		signers = append(signers, a)
	}
	sort.Slice(signers, func(i, j int) bool { return bytes.Compare(signers[i][:], signers[j][:]) < 0 })
	var signersExtra []byte
	for _, s := range signers {
		signersExtra = append(signersExtra, s[:]...)
	}
	difficulty := func(number uint64, signer ecommon.Address) int64 {
		if signers[number%uint64(len(signers))] == signer {
			return 2
		}
		return 1
	}

	db := audit2NewDB()
	extraInfo, _ := json.Marshal(ExtraInfo{ChainID: big.NewInt(1), Period: 1, Epoch: audit2Epoch})
	G := signers[0] // sealed the checkpoint/genesis header #100
	A := signers[1]
	genesisHdr := audit2Header(nil, signersExtra, 1, ecommon.Hash{})
	audit2Seal(genesisHdr, keys[G])
	{
		raw, _ := json.Marshal(genesisHdr)
		p := &scom.SyncGenesisHeaderParam{ChainID: audit2ChainID, GenesisHeader: raw}
		sink := common.NewZeroCopySink(nil)
		p.Serialization(sink)
		ns := audit2Native(t, db, sink.Bytes())
		if err := side_chain_manager.PutSideChain(ns, &side_chain_manager.SideChain{ChainId: audit2ChainID, ExtraInfo: extraInfo}); err != nil {
			t.Fatal(err)
		}
		if err := NewHandler().SyncGenesisHeader(ns); err != nil {
			t.Fatalf("setup: SyncGenesisHeader: %v", err)
		}
	}
	mk := func(parent *etypes.Header, signer ecommon.Address) *etypes.Header {
		n := parent.Number.Uint64() + 1
		h := audit2Header(parent, nil, difficulty(n, signer), ecommon.Hash{})
		audit2Seal(h, keys[signer])
		return h
	}

	// 3 signers => window limit = 3/2+1 = 2: nobody may seal two consecutive blocks.
	// control: G sealed #100, so G sealing #101 is refused
	if err := audit2Sync(t, db, mk(genesisHdr, G)); err == nil {
		t.Fatal("control: G sealed #100 and #101 consecutively and was accepted")
	} else {
		t.Logf("control: %v", err)
	}

	h101 := mk(genesisHdr, A)
	if err := audit2Sync(t, db, h101); err != nil {
		t.Fatalf("setup: #101 by A: %v", err)
	}
	h102 := mk(h101, G)
	if err := audit2Sync(t, db, h102); err != nil {
		t.Fatalf("setup: #102 by G: %v", err)
	}
	// G again, immediately
	parent := h102
	var consecutive []uint64
	for i := 0; i < 5; i++ {
		h := mk(parent, G)
		if err := audit2Sync(t, db, h); err != nil {
			t.Logf("#%d by G rejected: %v", h.Number, err)
			break
		}
		consecutive = append(consecutive, h.Number.Uint64())
		parent = h
	}
	if len(consecutive) > 0 {
		ns := audit2Native(t, db, nil)
		height, _ := GetCanonicalHeight(ns, audit2ChainID)
		t.Fatalf("C29 violated (msc): authorized signer %s sealed #102 and then ALSO the consecutive blocks %v, all stored (canonical tip #%d); "+
			"with 3 signers the recent-signer window forbids sealing again within 2 blocks. lastSeenHeight was taken from the checkpoint header #100 "+
			"the signer sealed and the scan of the real recent ancestors was skipped.", G.Hex(), consecutive, height)
	}
}
