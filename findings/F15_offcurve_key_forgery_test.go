// belongs in: core/validation (the package's own test file does not build: mask it with -overlay; go test -overlay ov.json -vet=off -run TestAuditOffCurveKeyForgery ./core/validation/)
// F15 (C39): written by an independent audit sub-agent, confirmed against the real code before the fix.
package validation

import (
	"crypto/ecdsa"
	"crypto/sha256"
	"math/big"
	"testing"

	"github.com/ontio/ontology-crypto/ec"
	"github.com/ontio/ontology-crypto/keypair"
	s "github.com/ontio/ontology-crypto/signature"
	"github.com/polynetwork/poly/common"
	"github.com/polynetwork/poly/core/payload"
	"github.com/polynetwork/poly/core/signature"
	"github.com/polynetwork/poly/core/types"
	ontErrors "github.com/polynetwork/poly/errors"
)

// C39: a transaction must pass signature validation only if every entry carries a VALID
// signature of the listed key, and the attributed signer addresses are the addresses of
// those keys.
//
// The Sig decoder (types.Sig.Deserialize -> keypair.DeserializePublicKey -> ec.DecodePublicKey)
// accepts an UNCOMPRESSED secp256k1 key without checking that (x,y) is on the curve, while the
// address (types.AddressFromPubKey) is derived from the COMPRESSED form (x, parity(y)) only.
// So the attacker lists the key (x_victim, 0): it has the victim's address (when the victim's y
// is even) but is a point of order 2 on another curve, for which ecdsa.Verify (legacy big.Int
// path used for btcec.S256) accepts a signature anybody can compute without a private key.
func TestAuditOffCurveKeyForgery(t *testing.T) {
	// victim: secp256k1 key with private key d=1 (any key with even y works); the test never
	// uses d again.
	curve, err := keypair.GetCurve(keypair.SECP256K1)
	if err != nil {
		t.Fatal(err)
	}
	var victim *ec.PublicKey
	for d := int64(1); d < 100; d++ {
		x, y := curve.ScalarBaseMult(big.NewInt(d).Bytes())
		if y.Bit(0) == 0 {
			victim = &ec.PublicKey{Algorithm: ec.ECDSA, PublicKey: &ecdsa.PublicKey{Curve: curve, X: x, Y: y}}
			break
		}
	}
	victimAddr := types.AddressFromPubKey(victim)
	victimSer := keypair.SerializePublicKey(victim) // 0x12 0x05 0x02 X

	// the unsigned transaction, payer = victim
	utx := &types.Transaction{
		TxType:  types.Invoke,
		Nonce:   7,
		Payload: &payload.InvokeCode{Code: []byte("spend the victim's funds")},
		Payer:   victimAddr,
	}
	usink := common.NewZeroCopySink(nil)
	if err := utx.SerializeUnsigned(usink); err != nil {
		t.Fatal(err)
	}
	unsigned := usink.Bytes()
	tmp := sha256.Sum256(unsigned)
	txHash := sha256.Sum256(tmp[:])

	// attacker's listed key: uncompressed (x_victim, y=0)
	evil := append([]byte{}, victimSer[:2]...)
	evil = append(evil, 4)
	evil = append(evil, victimSer[3:]...)
	evil = append(evil, make([]byte, 32)...)
	evilPk, err := keypair.DeserializePublicKey(evil)
	if err != nil {
		t.Skipf("off-curve key refused by decoder (good): %v", err)
	}
	if types.AddressFromPubKey(evilPk) != victimAddr {
		t.Fatalf("test setup: evil key address differs from victim address")
	}

	// forge: pick u1, R=u1*G, r=R.x, s=e/u1; passes whenever (r/s)*(x,0) evaluates to infinity.
	digest := sha256.Sum256(txHash[:])
	e := new(big.Int).SetBytes(digest[:])
	N := curve.Params().N
	var forged []byte
	for i := int64(1); i < 256 && forged == nil; i++ {
		u1 := big.NewInt(i)
		rx, _ := curve.ScalarBaseMult(u1.Bytes())
		r := new(big.Int).Mod(rx, N)
		sv := new(big.Int).Mul(e, new(big.Int).ModInverse(u1, N))
		sv.Mod(sv, N)
		if r.Sign() == 0 || sv.Sign() == 0 {
			continue
		}
		raw, err := s.Serialize(&s.Signature{Scheme: s.SHA256withECDSA, Value: &s.DSASignature{R: r, S: sv, Curve: curve}})
		if err != nil {
			t.Fatal(err)
		}
		if signature.Verify(evilPk, txHash[:], raw) == nil {
			forged = raw
		}
	}
	if forged == nil {
		t.Skip("no forged signature found (good)")
	}
	if signature.Verify(victim, txHash[:], forged) == nil {
		t.Fatalf("test setup: forged signature is valid for the real key?!")
	}

	// wire encoding of the signed transaction (hand-encoded so the key stays uncompressed)
	sink := common.NewZeroCopySink(nil)
	sink.WriteBytes(unsigned)
	sink.WriteVarUint(1) // one Sig entry
	sink.WriteUint16(1)  // one signature
	sink.WriteVarBytes(forged)
	sink.WriteUint16(1) // one public key
	sink.WriteVarBytes(evil)
	sink.WriteUint16(1) // M
	tx, err := types.TransactionFromRawBytes(sink.Bytes())
	if err != nil {
		t.Skipf("transaction refused by decoder (good): %v", err)
	}
	if tx.Hash() != common.Uint256(txHash) {
		t.Fatalf("test setup: hash mismatch")
	}

	code := VerifyTransaction(tx)
	if code == ontErrors.ErrNoError {
		addrs, _ := tx.GetSignatureAddresses()
		t.Fatalf("C39 violated: VerifyTransaction accepted a transaction whose only signature entry was computed WITHOUT any private key "+
			"(listed key is the off-curve point (x_victim,0) sent uncompressed; the signature does not verify under the real key %x). "+
			"Attributed signer addresses = %v, victim address = %s. The property demands rejection: the entry is not a valid single-key signature.",
			victimSer, addrHex(addrs), victimAddr.ToHexString())
	}
}

func addrHex(a []common.Address) []string {
	r := make([]string, 0, len(a))
	for _, x := range a {
		r = append(r, x.ToHexString())
	}
	return r
}
