package cosmos

// F6 demonstration: (*CosmosHandler).MakeDepositProposal accepts a cross-chain
// message that is proven ABSENT from the source chain's application state.
//
// With CosmosProofValue.Kp == "" the handler calls
//     prt.VerifyAbsence(&proof, AppHash, string(Value))
// i.e. it checks that the key path string(Value) does NOT exist in the state,
// and then decodes Value as the MakeTxParam and accepts it.
//
// Everything below is built in memory and deterministically: a 4-validator
// Tendermint (block version 10) chain with fixed ed25519 seeds, a cosmos-sdk
// rootmulti store with two IAVL sub stores, signed headers, and genuine proofs
// produced by the store's own Query(prove=true).

import (
	"bytes"
	"testing"
	"time"

	"github.com/cosmos/cosmos-sdk/store/rootmulti"
	storetypes "github.com/cosmos/cosmos-sdk/store/types"
	abci "github.com/tendermint/tendermint/abci/types"
	"github.com/tendermint/tendermint/crypto"
	"github.com/tendermint/tendermint/crypto/ed25519"
	"github.com/tendermint/tendermint/crypto/merkle"
	tmtypes "github.com/tendermint/tendermint/types"
	"github.com/tendermint/tendermint/version"
	dbm "github.com/tendermint/tm-db"

	"github.com/polynetwork/poly/common"
	"github.com/polynetwork/poly/core/types"
	"github.com/polynetwork/poly/native"
	ccmcom "github.com/polynetwork/poly/native/service/cross_chain_manager/common"
	synccom "github.com/polynetwork/poly/native/service/header_sync/cosmos"
)

const (
	f6ChainName     = "f6-cosmos"
	f6SourceChainID = uint64(5)
	f6StoreName     = "ccm"
)

var f6Time = time.Unix(1600000000, 0).UTC()

type f6Chain struct {
	privs  []crypto.PrivKey // in validator-set order
	valset *tmtypes.ValidatorSet
}

func f6NewChain() *f6Chain {
	seeds := []string{"f6-validator-0", "f6-validator-1", "f6-validator-2", "f6-validator-3"}
	byAddr := map[string]crypto.PrivKey{}
	vals := make([]*tmtypes.Validator, 0, len(seeds))
	for _, s := range seeds {
		priv := ed25519.GenPrivKeyFromSecret([]byte(s))
		byAddr[string(priv.PubKey().Address())] = priv
		vals = append(vals, tmtypes.NewValidator(priv.PubKey(), 100))
	}
	vs := tmtypes.NewValidatorSet(vals) // sorts the validators
	c := &f6Chain{valset: vs}
	for _, v := range vs.Validators {
		c.privs = append(c.privs, byAddr[string(v.Address)])
	}
	return c
}

func f6Fill(b byte) []byte { return bytes.Repeat([]byte{b}, 32) }

// signedHeader returns a CosmosHeader at the given height with the given
// AppHash, committed (signed) by validators 0..2 of 4 (300 of 400 > 2/3).
func (c *f6Chain) signedHeader(t *testing.T, height int64, appHash []byte) *synccom.CosmosHeader {
	valHash := c.valset.Hash()
	hdr := tmtypes.Header{
		Version:            version.Consensus{Block: 10, App: 0},
		ChainID:            f6ChainName,
		Height:             height,
		Time:               f6Time.Add(time.Duration(height) * 5 * time.Second),
		LastBlockID:        tmtypes.BlockID{Hash: f6Fill(0x01), PartsHeader: tmtypes.PartSetHeader{Total: 1, Hash: f6Fill(0x02)}},
		LastCommitHash:     f6Fill(0x03),
		DataHash:           f6Fill(0x04),
		ValidatorsHash:     valHash,
		NextValidatorsHash: valHash,
		ConsensusHash:      f6Fill(0x05),
		AppHash:            appHash,
		LastResultsHash:    f6Fill(0x06),
		EvidenceHash:       f6Fill(0x07),
		ProposerAddress:    c.valset.Validators[0].Address,
	}
	blockID := tmtypes.BlockID{
		Hash:        synccom.HashCosmosHeader(hdr),
		PartsHeader: tmtypes.PartSetHeader{Total: 1, Hash: f6Fill(0x08)},
	}
	sigs := make([]tmtypes.CommitSig, len(c.valset.Validators))
	for i, v := range c.valset.Validators {
		if i == len(sigs)-1 {
			sigs[i] = tmtypes.NewCommitSigAbsent()
			continue
		}
		sigs[i] = tmtypes.CommitSig{
			BlockIDFlag:      tmtypes.BlockIDFlagCommit,
			ValidatorAddress: v.Address,
			Timestamp:        hdr.Time.Add(time.Second),
		}
	}
	ch := &synccom.CosmosHeader{
		Header:  hdr,
		Commit:  tmtypes.NewCommit(height, 0, blockID, sigs),
		Valsets: c.valset.Validators,
	}
	for i := range sigs {
		if ch.Commit.Signatures[i].Absent() {
			continue
		}
		// exactly the bytes VerifyCosmosHeader checks
		sig, err := c.privs[i].Sign(synccom.VoteSignBytes(ch, i))
		if err != nil {
			t.Fatalf("sign: %v", err)
		}
		ch.Commit.Signatures[i].Signature = sig
	}
	// self check against the real verifier
	info := &synccom.CosmosEpochSwitchInfo{Height: 1, NextValidatorsHash: valHash, ChainID: f6ChainName}
	if err := synccom.VerifyCosmosHeader(ch, info); err != nil {
		t.Fatalf("test setup: header at height %d does not verify: %v", height, err)
	}
	return ch
}

// f6FreshNative returns a NativeService over a fresh DB (side chain registered
// by NewNative, as in the existing test) holding the epoch-switch info that
// SyncGenesisHeader derives from the chain's genesis header (height 1).
// (SyncGenesisHeader itself needs the node_manager governance view in storage,
// which the package's test fixture does not provide, so the info is installed
// with the same PutEpochSwitchInfo call SyncGenesisHeader makes.)
func f6FreshNative(t *testing.T, genesis *synccom.CosmosHeader) *native.NativeService {
	tx := &types.Transaction{SignedAddr: []common.Address{acct.Address}}
	ns := NewNative(nil, tx, nil)
	synccom.PutEpochSwitchInfo(ns, f6SourceChainID, &synccom.CosmosEpochSwitchInfo{
		Height:             genesis.Header.Height,
		NextValidatorsHash: genesis.Header.NextValidatorsHash,
		ChainID:            genesis.Header.ChainID,
		BlockHash:          synccom.HashCosmosHeader(genesis.Header),
	})
	info, err := synccom.GetEpochSwitchInfo(ns, f6SourceChainID)
	if err != nil || info.Height != 1 {
		t.Fatalf("test setup: epoch switch info: %+v %v", info, err)
	}
	return ns
}

func f6Submit(t *testing.T, ns *native.NativeService, hdr *synccom.CosmosHeader, proof *merkle.Proof, kp string, value []byte) (*ccmcom.MakeTxParam, error) {
	param := &ccmcom.EntranceParam{
		SourceChainID:         f6SourceChainID,
		Height:                uint32(hdr.Header.Height),
		Proof:                 synccom.Cdc.MustMarshalBinaryBare(*proof),
		RelayerAddress:        acct.Address[:],
		Extra:                 synccom.Cdc.MustMarshalBinaryBare(CosmosProofValue{Kp: kp, Value: value}),
		HeaderOrCrossChainMsg: synccom.Cdc.MustMarshalBinaryBare(hdr),
	}
	sink := common.NewZeroCopySink(nil)
	param.Serialization(sink)
	tx := &types.Transaction{SignedAddr: []common.Address{acct.Address}}
	return NewCosmosHandler().MakeDepositProposal(NewNative(sink.Bytes(), tx, ns.GetCacheDB()))
}

func TestF6AbsentMessageIsNotAccepted(t *testing.T) {
	chain := f6NewChain()

	// ---- the forged cross-chain message (never committed on the source chain at proof time)
	txHash := append([]byte(f6StoreName+"/"), bytes.Repeat([]byte("F6"), 50)...)[:47] // 47 == '/' as var-length prefix
	forged := &ccmcom.MakeTxParam{
		TxHash:              txHash,
		CrossChainID:        bytes.Repeat([]byte{0xAB}, 32),
		FromContractAddress: bytes.Repeat([]byte{0x11}, 20),
		ToChainID:           2,
		ToContractAddress:   bytes.Repeat([]byte{0x22}, 20),
		Method:              "unlock",
		Args:                []byte("pay 1000000 to attacker"),
	}
	sink := common.NewZeroCopySink(nil)
	forged.Serialization(sink)
	forgedBytes := sink.Bytes()

	keys, err := merkle.KeyPathToKeys(string(forgedBytes))
	if err != nil || len(keys) != 2 || string(keys[0]) != f6StoreName {
		t.Fatalf("test setup: forged bytes are not a 2-key key path: keys=%q err=%v", keys, err)
	}
	absentKey := keys[1] // == forgedBytes[len("/ccm/"):]

	// ---- source chain application state: rootmulti store with two IAVL sub stores
	ms := rootmulti.NewStore(dbm.NewMemDB())
	ms.SetPruning(storetypes.PruneNothing)
	ccmKey, bankKey := storetypes.NewKVStoreKey(f6StoreName), storetypes.NewKVStoreKey("bank")
	ms.MountStoreWithDB(ccmKey, storetypes.StoreTypeIAVL, nil)
	ms.MountStoreWithDB(bankKey, storetypes.StoreTypeIAVL, nil)
	if err := ms.LoadLatestVersion(); err != nil {
		t.Fatal(err)
	}
	ms.GetKVStore(ccmKey).Set([]byte("\x01honest-request-1"), []byte("honest message 1"))
	ms.GetKVStore(ccmKey).Set([]byte("\x01honest-request-2"), []byte("honest message 2"))
	ms.GetKVStore(ccmKey).Set([]byte("zz-last"), []byte("x"))
	ms.GetKVStore(bankKey).Set([]byte("balance/alice"), []byte("42"))
	commit1 := ms.Commit() // state S1: forged message nowhere in the state

	resAbs := ms.Query(abci.RequestQuery{Path: "/" + f6StoreName + "/key", Data: absentKey, Height: commit1.Version, Prove: true})
	if resAbs.Code != 0 || resAbs.Proof == nil || resAbs.Value != nil {
		t.Fatalf("test setup: absence query failed: %+v", resAbs)
	}
	if typ := resAbs.Proof.Ops[0].Type; typ != "iavl:a" {
		t.Fatalf("test setup: expected an iavl absence op, got %s", typ)
	}

	genesis := chain.signedHeader(t, 1, f6Fill(0x09))
	hdrS1 := chain.signedHeader(t, 10, commit1.Hash)

	// sanity: the proof really is an ABSENCE proof against hdrS1.AppHash, and no existence proof
	if err := ProofRuntime().VerifyAbsence(resAbs.Proof, hdrS1.Header.AppHash, string(forgedBytes)); err != nil {
		t.Fatalf("test setup: absence proof does not verify: %v", err)
	}

	// ---- control: the same message really committed (state S2) + existence proof + non-empty Kp
	realKey := append([]byte{0x01}, forged.CrossChainID...)
	ms.GetKVStore(ccmKey).Set(realKey, forgedBytes)
	commit2 := ms.Commit()
	resEx := ms.Query(abci.RequestQuery{Path: "/" + f6StoreName + "/key", Data: realKey, Height: commit2.Version, Prove: true})
	if resEx.Code != 0 || resEx.Proof == nil || !bytes.Equal(resEx.Value, forgedBytes) {
		t.Fatalf("test setup: existence query failed: %+v", resEx)
	}
	hdrS2 := chain.signedHeader(t, 11, commit2.Hash)
	kp := merkle.KeyPath{}.AppendKey([]byte(f6StoreName), merkle.KeyEncodingURL).AppendKey(realKey, merkle.KeyEncodingURL).String()

	got, err := f6Submit(t, f6FreshNative(t, genesis), hdrS2, resEx.Proof, kp, forgedBytes)
	if err != nil {
		t.Fatalf("control failed: committed message with existence proof rejected: %v", err)
	}
	if got.Method != forged.Method || !bytes.Equal(got.Args, forged.Args) {
		t.Fatalf("control: unexpected result %+v", got)
	}
	t.Logf("control ok: message committed under %s with an existence proof is accepted", kp)

	// control 2: the existence proof path refuses the message against the state S1 header
	if _, err := f6Submit(t, f6FreshNative(t, genesis), hdrS1, resEx.Proof, kp, forgedBytes); err == nil {
		t.Fatalf("control failed: existence proof for S2 accepted against S1 app hash")
	}

	// ---- the defect: Kp == "", Value = forged message, proof = ABSENCE proof for key path string(Value)
	got, err = f6Submit(t, f6FreshNative(t, genesis), hdrS1, resAbs.Proof, "", forgedBytes)
	if err == nil {
		t.Fatalf("message proven ABSENT from the source chain state was accepted: method=%q args=%q toChain=%d toContract=%x crossChainID=%x (proof ops: %s, %s)",
			got.Method, got.Args, got.ToChainID, got.ToContractAddress, got.CrossChainID,
			resAbs.Proof.Ops[0].Type, resAbs.Proof.Ops[1].Type)
	}
	t.Logf("absent message rejected: %v", err)
}
