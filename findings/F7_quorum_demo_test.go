package quorum

// Demonstration for finding F7-quorum (property C19); place in native/service/header_sync/quorum/
// as zz_f7_demo_test.go. The quorum router's SyncGenesisHeader had no "already initialised" test:
// a second installation for the same chain succeeded and overwrote the validator trust root.

import (
	"encoding/hex"
	"testing"

	"github.com/polynetwork/poly/common"
	common4 "github.com/polynetwork/poly/native/service/header_sync/common"
)

func TestF7QuorumGenesisInstalledOnce(t *testing.T) {
	args := func(h string) []byte {
		raw, err := hex.DecodeString(h)
		if err != nil {
			t.Fatal(err)
		}
		p := common4.SyncGenesisHeaderParam{ChainID: 8, GenesisHeader: raw}
		sink := common.NewZeroCopySink(nil)
		p.Serialization(sink)
		return sink.Bytes()
	}
	ns := getNativeFunc(args(gh), nil)
	if err := NewQuorumHandler().SyncGenesisHeader(ns); err != nil {
		t.Fatal(err)
	}
	h0, err := GetCurrentValHeight(ns, 8)
	if err != nil {
		t.Fatal(err)
	}
	// second installation, other header (h1 is the next block of the test data), same chain id
	ns2 := getNativeFunc(args(h1), ns.GetCacheDB())
	if err := NewQuorumHandler().SyncGenesisHeader(ns2); err == nil {
		t.Errorf("second genesis installation for chain 8 succeeded")
	}
	h0b, err := GetCurrentValHeight(ns2, 8)
	if err != nil {
		t.Fatal(err)
	}
	if h0b != h0 {
		t.Errorf("trust root changed: validator-set height %d -> %d", h0, h0b)
	}
}
