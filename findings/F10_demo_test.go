package types

// Demonstration for finding F10 (property C05: "reading arbitrary byte streams never panics"); place in
// p2pserver/message/types/ as zz_f10_demo_test.go.
//
// An `addr` message whose node count has the top bit set: int(count) is negative, so the read loop
// is skipped and NodeAddrs stays empty, but the count is then clamped to MAX_ADDR_NODE_CNT and used
// as a slice bound: NodeAddrs[:8192] on an empty slice panics (slice bounds out of range). The
// frame is well formed (right magic, length and checksum), so any peer can send it.

import (
	"bytes"
	"testing"

	"github.com/polynetwork/poly/common"
	"github.com/polynetwork/poly/common/config"
	p2pCommon "github.com/polynetwork/poly/p2pserver/common"
)

func TestF10AddrMessageNeverPanics(t *testing.T) {
	for _, count := range []uint64{1 << 63, 0xFFFFFFFFFFFFFFFF} {
		payload := common.NewZeroCopySink(nil)
		payload.WriteUint64(count)
		sink := common.NewZeroCopySink(nil)
		hdr := newMessageHeader(p2pCommon.ADDR_TYPE, uint32(len(payload.Bytes())), p2pCommon.Checksum(payload.Bytes()))
		writeMessageHeaderInto(sink, hdr)
		sink.WriteBytes(payload.Bytes())
		_ = config.DefConfig
		func() {
			defer func() {
				if r := recover(); r != nil {
					t.Errorf("count %#x: ReadMessage panicked: %v", count, r)
				}
			}()
			if msg, _, err := ReadMessage(bytes.NewReader(sink.Bytes())); err == nil {
				t.Errorf("count %#x: accepted an addr message announcing that many nodes: %v", count, msg)
			}
		}()
	}
}
