// belongs in: txnpool/proc (mask the package's stale tests with -overlay); F19 (C36): written by an audit sub-agent, confirmed before the fix.
package proc

// Audit A6, property C36: "The transaction pool accepts a transaction from peers or RPC only if
// at least one of its signing addresses is a registered relayer or a permitted consensus address".
//
// The gate of TxActor.handleTransaction is updatePermittedAddrMap() followed by
// TxActor.isValidSender(). The permitted set (package variable permittedAddrMap) is refreshed by
// bactor.UpdatePermittedAddrMap (http/base/actor/txnpool.go), which
//   (1) only ever ADDS addresses to the map it is given: nothing removes an address, so a consensus
//       node that was black-listed by a 2/3 vote and dropped from the peer pool of the new view keeps
//       passing the gate for as long as the process lives
//       (TestAuditA6StalePermittedConsensusAddress), and
//   (2) adds every entry of the peer pool of the current view whatever its Status, so a node that
//       never was a consensus node and sits in the pool with BlackStatus is "permitted" too, even for
//       a freshly started process (TestAuditA6BlackListedCandidateIsPermitted).
//
// The tests drive a real ledger (genesis + one block of governance transactions), the real
// node_manager contract and the real gate functions. Nothing is mocked.

import (
	"crypto/elliptic"
	"crypto/sha256"
	"encoding/hex"
	"fmt"
	"os"
	"strings"
	"testing"

	"github.com/ontio/ontology-crypto/ec"
	"github.com/ontio/ontology-crypto/keypair"
	s "github.com/ontio/ontology-crypto/signature"
	"github.com/polynetwork/poly/account"
	"github.com/polynetwork/poly/common"
	"github.com/polynetwork/poly/common/config"
	"github.com/polynetwork/poly/common/log"
	vconfig "github.com/polynetwork/poly/consensus/vbft/config"
	"github.com/polynetwork/poly/core/genesis"
	"github.com/polynetwork/poly/core/ledger"
	"github.com/polynetwork/poly/core/signature"
	"github.com/polynetwork/poly/core/types"
	bactor "github.com/polynetwork/poly/http/base/actor"
	"github.com/polynetwork/poly/native"
	"github.com/polynetwork/poly/native/service/governance/node_manager"
	"github.com/polynetwork/poly/native/service/governance/relayer_manager"
	"github.com/polynetwork/poly/native/service/utils"
	"github.com/polynetwork/poly/native/states"
)

// auditAccount builds a P-256 account from a fixed seed, so the tests use the same keys every run.
func auditAccount(seed string) *account.Account {
	d := sha256.Sum256([]byte(seed))
	pri := &ec.PrivateKey{Algorithm: ec.ECDSA, PrivateKey: ec.ConstructPrivateKey(d[:], elliptic.P256())}
	pub := pri.Public().(keypair.PublicKey)
	return &account.Account{
		PrivateKey: pri,
		PublicKey:  pub,
		Address:    types.AddressFromPubKey(pub),
		SigScheme:  s.SHA256withECDSA,
	}
}

// auditSignedTx builds a native-contract invocation signed by signer.
func auditSignedTx(t *testing.T, contract common.Address, method string, args []byte, nonce uint32, signer *account.Account) *types.Transaction {
	param := &states.ContractInvokeParam{Address: contract, Method: method, Args: args}
	sink := common.NewZeroCopySink(nil)
	param.Serialization(sink)
	tx := genesis.NewInvokeTransaction(sink.Bytes(), nonce)
	hash := tx.Hash()
	sig, err := signature.Sign(signer, hash[:])
	if err != nil {
		t.Fatalf("setup: sign tx: %v", err)
	}
	tx.Sigs = []types.Sig{{PubKeys: []keypair.PublicKey{signer.PublicKey}, M: 1, SigData: [][]byte{sig}}}
	// round trip through the wire format, as a transaction received from a peer or RPC would be
	raw := common.NewZeroCopySink(nil)
	if err := tx.Serialization(raw); err != nil {
		t.Fatalf("setup: serialize tx: %v", err)
	}
	tx, err = types.TransactionFromRawBytes(raw.Bytes())
	if err != nil {
		t.Fatalf("setup: deserialize tx: %v", err)
	}
	return tx
}

func auditPeerPoolOfCurrentView(t *testing.T) (uint32, *node_manager.PeerPoolMap) {
	gvBytes, err := bactor.GetStorageItem(utils.NodeManagerContractAddress, []byte(node_manager.GOVERNANCE_VIEW))
	if err != nil {
		t.Fatalf("setup: read governance view: %v", err)
	}
	gv := new(node_manager.GovernanceView)
	if err := gv.Deserialization(common.NewZeroCopySource(gvBytes)); err != nil {
		t.Fatalf("setup: governance view: %v", err)
	}
	ppBytes, err := bactor.GetStorageItem(utils.NodeManagerContractAddress,
		append([]byte(node_manager.PEER_POOL), utils.GetUint32Bytes(gv.View)...))
	if err != nil {
		t.Fatalf("setup: read peer pool of view %d: %v", gv.View, err)
	}
	pp := &node_manager.PeerPoolMap{PeerPoolMap: make(map[string]*node_manager.PeerPoolItem)}
	if err := pp.Deserialization(common.NewZeroCopySource(ppBytes)); err != nil {
		t.Fatalf("setup: peer pool: %v", err)
	}
	return gv.View, pp
}

type auditChain struct {
	lgr        *ledger.Ledger
	tip        *types.Block
	bookkeeper *account.Account
	peers      []*account.Account
}

// auditNewChain creates a ledger in a temp dir whose genesis block runs node_manager initConfig
// with five consensus peers. Blocks are signed by a single bookkeeper (ConsensusType "dbft" makes
// the ledger check headers against NextBookkeeper only, which is irrelevant to the property).
func auditNewChain(t *testing.T) *auditChain {
	log.InitLog(log.ErrorLog, log.Stdout)

	// Same registrations as native/service/init.go. That package cannot be linked in this sandbox
	// (header_sync pulls in the cgo bls library), so the two contracts used here are registered directly.
	native.Contracts[utils.NodeManagerContractAddress] = node_manager.RegisterNodeManagerContract
	native.Contracts[utils.RelayerManagerContractAddress] = relayer_manager.RegisterRelayerManagerContract

	dir, err := os.MkdirTemp("", "audit-a6-ledger")
	if err != nil {
		t.Fatalf("setup: %v", err)
	}
	t.Cleanup(func() { os.RemoveAll(dir) })

	c := &auditChain{bookkeeper: auditAccount("audit-A6-bookkeeper")}
	vbft := &config.VBFTConfig{
		BlockMsgDelay:        10000,
		HashMsgDelay:         10000,
		PeerHandshakeTimeout: 10,
		MaxBlockChangeView:   100000,
		VrfValue:             strings.Repeat("a", 128),
		VrfProof:             strings.Repeat("b", 128),
	}
	for i := 0; i < 5; i++ {
		p := auditAccount(fmt.Sprintf("audit-A6-peer-%d", i))
		c.peers = append(c.peers, p)
		vbft.Peers = append(vbft.Peers, &config.VBFTPeerInfo{
			Index:      uint32(i + 1),
			PeerPubkey: vconfig.PubkeyID(p.PublicKey),
			Address:    p.Address.ToBase58(),
		})
	}

	oldGenesis := *config.DefConfig.Genesis
	oldEventLog := config.DefConfig.Common.EnableEventLog
	oldLedger := ledger.DefLedger
	t.Cleanup(func() {
		*config.DefConfig.Genesis = oldGenesis
		config.DefConfig.Common.EnableEventLog = oldEventLog
		ledger.DefLedger = oldLedger
	})
	config.DefConfig.Genesis.ConsensusType = config.CONSENSUS_TYPE_DBFT
	config.DefConfig.Genesis.VBFT = vbft // node_manager initConfig input
	config.DefConfig.Common.EnableEventLog = false

	c.lgr, err = ledger.NewLedger(dir)
	if err != nil {
		t.Fatalf("setup: NewLedger: %v", err)
	}
	t.Cleanup(func() { c.lgr.Close() })
	ledger.DefLedger = c.lgr
	bookkeepers := []keypair.PublicKey{c.bookkeeper.PublicKey}
	c.tip, err = genesis.BuildGenesisBlock(bookkeepers, config.DefConfig.Genesis)
	if err != nil {
		t.Fatalf("setup: BuildGenesisBlock: %v", err)
	}
	if err := c.lgr.Init(bookkeepers, c.tip); err != nil {
		t.Fatalf("setup: ledger init: %v", err)
	}
	view, pool := auditPeerPoolOfCurrentView(t)
	if view != 1 || len(pool.PeerPoolMap) != 5 {
		t.Fatalf("setup: after genesis expected view 1 with 5 peers, got view %d with %d peers", view, len(pool.PeerPoolMap))
	}
	return c
}

// auditCommit executes txs in a new block on top of the tip and commits it to the ledger.
func (c *auditChain) auditCommit(t *testing.T, txs []*types.Transaction) {
	prevHash := c.tip.Hash()
	height := c.tip.Header.Height + 1
	header := &types.Header{
		Version:        types.CURR_HEADER_VERSION,
		ChainID:        c.tip.Header.ChainID,
		PrevBlockHash:  prevHash,
		Timestamp:      c.tip.Header.Timestamp + 10,
		Height:         height,
		ConsensusData:  uint64(height),
		NextBookkeeper: c.tip.Header.NextBookkeeper,
		BlockRoot:      c.lgr.GetBlockRootWithPreBlockHashes(height, []common.Uint256{prevHash}),
	}
	block := &types.Block{Header: header, Transactions: txs}
	block.RebuildMerkleRoot()
	blockHash := block.Hash()
	sig, err := signature.Sign(c.bookkeeper, blockHash[:])
	if err != nil {
		t.Fatalf("setup: sign block: %v", err)
	}
	header.Bookkeepers = []keypair.PublicKey{c.bookkeeper.PublicKey}
	header.SigData = [][]byte{sig}
	result, err := c.lgr.ExecuteBlock(block)
	if err != nil {
		t.Fatalf("setup: ExecuteBlock: %v", err)
	}
	if err := c.lgr.SubmitBlock(block, result); err != nil {
		t.Fatalf("setup: SubmitBlock: %v", err)
	}
	if h := c.lgr.GetCurrentBlockHeight(); h != height {
		t.Fatalf("setup: block %d not committed, ledger height %d", height, h)
	}
	c.tip = block
}

func auditBlackNodeArgs(pubkey string, voter *account.Account) []byte {
	p := &node_manager.PeerListParam{PeerPubkeyList: []string{pubkey}, Address: voter.Address}
	sink := common.NewZeroCopySink(nil)
	p.Serialization(sink)
	return sink.Bytes()
}

func auditPeerArgs(pubkey string, addr common.Address) []byte {
	p := &node_manager.PeerParam{PeerPubkey: pubkey, Address: addr}
	sink := common.NewZeroCopySink(nil)
	p.Serialization(sink)
	return sink.Bytes()
}

// auditResetGate empties the permitted set, as in a process that has just started.
func auditResetGate() {
	lock.Lock()
	for k := range permittedAddrMap {
		delete(permittedAddrMap, k)
	}
	lastTime = 0
	lock.Unlock()
}

// auditGate runs exactly the two checks TxActor.handleTransaction runs before admitting a
// transaction, for a transaction signed only by signer (who is not a relayer).
func auditGate(t *testing.T, signer *account.Account, nonce uint32) error {
	tx := auditSignedTx(t, utils.RelayerManagerContractAddress, "registerRelayer", []byte{0}, nonce, signer)
	if err := updatePermittedAddrMap(); err != nil {
		t.Fatalf("setup: updatePermittedAddrMap: %v", err)
	}
	return (&TxActor{}).isValidSender(tx)
}

func TestAuditA6StalePermittedConsensusAddress(t *testing.T) {
	c := auditNewChain(t)
	evicted := c.peers[4]
	evictedPubkey := vconfig.PubkeyID(evicted.PublicKey)

	auditResetGate()
	if err := auditGate(t, evicted, 1000); err != nil {
		t.Fatalf("setup: a current consensus node must pass the gate, got: %v", err)
	}

	// block 1: the four other consensus nodes vote blackNode(evicted). The fourth vote reaches
	// (2*5+2)/3 = 4, the node is black-listed and executeCommitDpos opens view 2 without it.
	var txs []*types.Transaction
	for i := 0; i < 4; i++ {
		txs = append(txs, auditSignedTx(t, utils.NodeManagerContractAddress, node_manager.BLACK_NODE,
			auditBlackNodeArgs(evictedPubkey, c.peers[i]), uint32(i+1), c.peers[i]))
	}
	c.auditCommit(t, txs)

	view2, pool2 := auditPeerPoolOfCurrentView(t)
	if view2 != 2 {
		t.Fatalf("setup: blackNode quorum should have opened view 2, ledger is at view %d", view2)
	}
	if _, still := pool2.PeerPoolMap[evictedPubkey]; still || len(pool2.PeerPoolMap) != 4 {
		t.Fatalf("setup: evicted node should be gone from the peer pool of view %d (pool size %d)", view2, len(pool2.PeerPoolMap))
	}
	blKey, _ := hex.DecodeString(evictedPubkey)
	if v, err := bactor.GetStorageItem(utils.NodeManagerContractAddress, append([]byte(node_manager.BLACK_LIST), blKey...)); err != nil || len(v) == 0 {
		t.Fatalf("setup: evicted node should be on the black list (err %v)", err)
	}

	// more than a minute later (the refresh interval of updatePermittedAddrMap): force the refresh
	lock.Lock()
	lastTime = 0
	lock.Unlock()

	if err := auditGate(t, evicted, 2000); err == nil {
		lock.RLock()
		n := len(permittedAddrMap)
		stale := permittedAddrMap[evicted.Address]
		lock.RUnlock()
		t.Errorf("C36 violated: after the permitted set was refreshed from a ledger whose current view (%d) has 4 consensus peers and "+
			"no longer contains node %s (black-listed by a 4/5 vote in block 1), a transaction signed only by that node's address %s "+
			"(not a relayer) still passes TxActor.isValidSender; permittedAddrMap holds %d addresses and still maps the evicted address to %v. "+
			"The property demands that only registered relayers and currently permitted consensus addresses are accepted.",
			view2, evictedPubkey[:16], evicted.Address.ToBase58(), n, stale)
	}

	// control: a node process started after block 1 (empty permitted set) rejects the same sender,
	// so the acceptance above is due to the stale entry only.
	auditResetGate()
	if err := auditGate(t, evicted, 3000); err == nil {
		t.Fatalf("control failed: a freshly built permitted set should not contain the evicted node")
	}
}

func TestAuditA6BlackListedCandidateIsPermitted(t *testing.T) {
	c := auditNewChain(t)
	outsider := auditAccount("audit-A6-outsider")
	outsiderPubkey := vconfig.PubkeyID(outsider.PublicKey)

	auditResetGate()
	if err := auditGate(t, outsider, 1000); err == nil {
		t.Fatalf("setup: an address that is neither relayer nor peer must be rejected")
	}

	// block 1: the outsider applies as candidate, four consensus nodes approve it (it enters the
	// peer pool with CandidateStatus, it never takes part in consensus), then the same four nodes
	// black-list it. A candidate's black-listing does not trigger commitDpos, so it stays in the
	// peer pool of the current view with BlackStatus.
	regSink := common.NewZeroCopySink(nil)
	(&node_manager.RegisterPeerParam{PeerPubkey: outsiderPubkey, Address: outsider.Address}).Serialization(regSink)
	txs := []*types.Transaction{
		auditSignedTx(t, utils.NodeManagerContractAddress, node_manager.REGISTER_CANDIDATE, regSink.Bytes(), 1, outsider),
	}
	for i := 0; i < 4; i++ {
		txs = append(txs, auditSignedTx(t, utils.NodeManagerContractAddress, node_manager.APPROVE_CANDIDATE,
			auditPeerArgs(outsiderPubkey, c.peers[i].Address), uint32(10+i), c.peers[i]))
	}
	for i := 0; i < 4; i++ {
		txs = append(txs, auditSignedTx(t, utils.NodeManagerContractAddress, node_manager.BLACK_NODE,
			auditBlackNodeArgs(outsiderPubkey, c.peers[i]), uint32(20+i), c.peers[i]))
	}
	c.auditCommit(t, txs)

	view, pool := auditPeerPoolOfCurrentView(t)
	it, ok := pool.PeerPoolMap[outsiderPubkey]
	if view != 1 || !ok || it.Status != node_manager.BlackStatus {
		t.Fatalf("setup: expected the outsider in the pool of view 1 with BlackStatus, got view %d present %v item %+v", view, ok, it)
	}
	blKey, _ := hex.DecodeString(outsiderPubkey)
	if v, err := bactor.GetStorageItem(utils.NodeManagerContractAddress, append([]byte(node_manager.BLACK_LIST), blKey...)); err != nil || len(v) == 0 {
		t.Fatalf("setup: outsider should be on the black list (err %v)", err)
	}

	// a process that starts now builds its permitted set from scratch
	auditResetGate()
	if err := auditGate(t, outsider, 2000); err == nil {
		t.Errorf("C36 violated: node %s (address %s) never was a consensus node and is black-listed by a 4/5 vote "+
			"(peer pool status %d = BlackStatus, BLACK_LIST record present), it is not a relayer, yet a transaction signed only by it "+
			"passes TxActor.isValidSender with a freshly built permitted set: UpdatePermittedAddrMap adds every peer pool entry "+
			"without looking at its Status. The property demands a registered relayer or a permitted consensus address.",
			outsiderPubkey[:16], outsider.Address.ToBase58(), it.Status)
	}
}
