package types

// Demonstration for finding F1 (property C02: "Decoding arbitrary bytes never panics"); place in
// core/types/ as zz_f1_demo_test.go.
//
// A transaction whose unsigned part is well formed and whose signature-count prefix announces
// 2^64-1 (or 2^40) signatures made Transaction.Deserialization evaluate make([]Sig, l) with that
// count: a run-time panic (makeslice: len out of range), reachable from the p2p transaction
// message and from RPC, with no recover on the path. Decoding must report an error instead.

import (
	"testing"

	"github.com/polynetwork/poly/common"
)

func f1Bytes(count uint64) []byte {
	sink := common.NewZeroCopySink(nil)
	sink.WriteByte(0)            // version
	sink.WriteByte(byte(Invoke)) // tx type
	sink.WriteUint32(1)          // nonce
	sink.WriteUint64(0)          // chain id
	sink.WriteUint64(0)          // gas limit
	sink.WriteUint64(0)          // gas price
	sink.WriteVarBytes([]byte{1, 2, 3})
	sink.WriteVarBytes(nil)               // attributes
	sink.WriteAddress(common.Address{})   // payer
	sink.WriteByte(byte(ONG))             // coin type
	sink.WriteVarUint(count)              // number of signatures that follow (none does)
	return sink.Bytes()
}

func TestF1DecodingNeverPanics(t *testing.T) {
	for _, count := range []uint64{0xFFFFFFFFFFFFFFFF, 1 << 62, 1 << 45} {
		func() {
			defer func() {
				if r := recover(); r != nil {
					t.Errorf("count %#x: decoding panicked: %v", count, r)
				}
			}()
			tx, err := TransactionFromRawBytes(f1Bytes(count))
			if err == nil {
				t.Errorf("count %#x: accepted a transaction with %d signatures", count, len(tx.Sigs))
			}
		}()
	}
	// sanity: the same bytes with a zero count decode
	if _, err := TransactionFromRawBytes(f1Bytes(0)); err != nil {
		t.Errorf("well-formed transaction without signatures rejected: %v", err)
	}
}
