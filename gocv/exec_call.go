package main

import (
	"fmt"
	"go/ast"
	"go/constant"
	"go/token"
	"go/types"
	"sort"
	"strings"
)

func (x *X) call(f *Frame, st *State, call *ast.CallExpr) []Value {
	// copy-in/copy-out of sliced arrays is written back when the outermost call of an
	// expression returns (nested calls such as conversions in the argument list must not flush)
	f.callDepth++
	res := x.call1(f, st, call)
	f.callDepth--
	if f.callDepth == 0 {
		x.flushWriteback(f, st)
	}
	return res
}

func (x *X) call1(f *Frame, st *State, call *ast.CallExpr) []Value {
	fun := stripParens(call.Fun)
	// conversion
	if tv, ok := f.info.Types[fun]; ok && tv.IsType() {
		v := x.expr(f, st, call.Args[0])
		return []Value{x.convert(st, v, tv.Type)}
	}
	// builtin
	if id, ok := fun.(*ast.Ident); ok {
		if b, ok := f.info.Uses[id].(*types.Builtin); ok {
			return x.builtin(f, st, call, b.Name())
		}
	}
	var fn *types.Func
	var recvExpr ast.Expr
	var sel *types.Selection
	switch t := fun.(type) {
	case *ast.Ident:
		fn, _ = f.info.Uses[t].(*types.Func)
	case *ast.SelectorExpr:
		if s, ok := f.info.Selections[t]; ok {
			if s.Kind() == types.MethodVal {
				fn, _ = s.Obj().(*types.Func)
				recvExpr = t.X
				sel = s
			}
		} else {
			fn, _ = f.info.Uses[t.Sel].(*types.Func)
		}
	}
	sig, _ := f.info.TypeOf(fun).Underlying().(*types.Signature)
	if sig == nil {
		fail("call of non-function at %s", x.pos(call.Pos()))
	}
	if fn != nil {
		if res, ok := x.droppedCall(f, st, fn, sig, call); ok {
			return res
		}
	}
	// receiver
	var recv *Value
	recvUnsupported := ""
	if recvExpr != nil {
		base := x.expr(f, st, recvExpr)
		path := sel.Index()
		if len(path) > 1 {
			base = x.walkFieldPath(st, base, path[:len(path)-1], call.Pos())
		}
		msig := fn.Type().(*types.Signature)
		rt := msig.Recv().Type()
		_, wantPtr := rt.Underlying().(*types.Pointer)
		_, isIface := rt.Underlying().(*types.Interface)
		_, havePtr := base.T.Underlying().(*types.Pointer)
		switch {
		case isIface:
			recv = &base
		case wantPtr && havePtr, !wantPtr && !havePtr:
			recv = &base
		case !wantPtr && havePtr:
			x.panicCheck(st, "nil", Not(Eq(base.S(), BVInt(0, 64))), call.Pos(), "nil receiver dereference")
			v := x.c.loadPtr(st, base.T.Underlying().(*types.Pointer).Elem(), base.S())
			recv = &v
		case wantPtr && !havePtr:
			// need the address of an addressable value
			if id, ok := stripParens(recvExpr).(*ast.Ident); ok && len(path) == 1 {
				if ref, ok := st.boxed[f.info.Uses[id]]; ok {
					v := scalar(rt, ref)
					recv = &v
					break
				}
			}
			recvUnsupported = "pointer-receiver method on a non-boxed value"
			recv = &base
		}
	}
	// arguments
	args := x.evalArgs(f, st, call, sig)
	// static types of the argument expressions (before implicit conversion to interface
	// parameters): an uncontracted callee can reach only what those types reach
	x.argStatic = nil
	if !sig.Variadic() || call.Ellipsis != token.NoPos {
		for _, a := range call.Args {
			x.argStatic = append(x.argStatic, f.info.TypeOf(a))
		}
	}
	name := "func-value"
	if fn != nil {
		name = fn.FullName()
	}
	if recvUnsupported != "" {
		if !x.c.abstract {
			fail("%s: %s at %s", name, recvUnsupported, x.pos(call.Pos()))
		}
		return x.unknownCall(f, st, call, sig, name, nil, args)
	}
	if fn != nil {
		x.checkCallsites(f, st, fn, recv, args, call)
		if h, ok := nativeFuncs[name]; ok {
			return h(x, f, st, call, recv, args)
		}
		if spec, ok := x.prog.contracts.Funcs[name]; ok {
			if spec.Inline {
				if fi, ok := x.prog.funcs[name]; ok {
					return x.inlineCall(f, st, fi, recv, args, call)
				}
			}
			return x.applyContract(f, st, spec, fn, recv, args, call)
		}
	}
	return x.unknownCall(f, st, call, sig, name, recv, args)
}

func (x *X) evalArgs(f *Frame, st *State, call *ast.CallExpr, sig *types.Signature) []Value {
	np := sig.Params().Len()
	var args []Value
	if len(call.Args) == 1 && np > 1 {
		// f(g()) with multi-value g
		if _, ok := f.info.TypeOf(call.Args[0]).(*types.Tuple); ok {
			vals := x.multi(f, st, call.Args[0])
			for i, v := range vals {
				args = append(args, x.assignConv(st, x.typed(v, sig.Params().At(i).Type()), sig.Params().At(i).Type()))
			}
			return args
		}
	}
	for i, a := range call.Args {
		var pt types.Type
		if sig.Variadic() && i >= np-1 {
			st2 := sig.Params().At(np - 1).Type().(*types.Slice)
			if call.Ellipsis != token.NoPos {
				pt = st2
			} else {
				pt = st2.Elem()
			}
		} else {
			pt = sig.Params().At(i).Type()
		}
		args = append(args, x.exprTyped(f, st, a, pt))
	}
	if sig.Variadic() && call.Ellipsis == token.NoPos {
		// pack extras into a fresh slice
		vt := sig.Params().At(np - 1).Type().(*types.Slice)
		extras := args[np-1:]
		r := x.c.newRef(st, "va")
		for i, e := range extras {
			x.c.storeElem(st, vt.Elem(), r, BVInt(int64(i), 64), e)
		}
		ln := BVInt(int64(len(extras)), 64)
		var packed Value
		if len(extras) == 0 {
			packed = zeroValue(vt)
		} else {
			packed = mkSlice(vt, r, BVInt(0, 64), ln, ln)
		}
		args = append(append([]Value{}, args[:np-1]...), packed)
	}
	return args
}

func resultNames(sig *types.Signature) []string {
	n := sig.Results().Len()
	names := make([]string, n)
	for i := 0; i < n; i++ {
		names[i] = sig.Results().At(i).Name()
		if names[i] == "" || names[i] == "_" {
			names[i] = fmt.Sprintf("r%d", i)
		}
	}
	return names
}

func isErrorType(t types.Type) bool {
	n, ok := t.(*types.Named)
	return ok && n.Obj().Pkg() == nil && n.Obj().Name() == "error"
}

// bindResults adds result names (named, r0.., result, err) to a name map.
func bindResults(names map[string]Value, sig *types.Signature, vals []Value) {
	rn := resultNames(sig)
	for i, v := range vals {
		names[rn[i]] = v
		names[fmt.Sprintf("r%d", i)] = v
	}
	n := len(vals)
	if n >= 1 {
		if _, taken := names["result"]; !taken {
			names["result"] = vals[0]
		}
		if isErrorType(sig.Results().At(n-1).Type()) {
			if _, taken := names["err"]; !taken || sig.Results().At(n-1).Name() == "err" {
				names["err"] = vals[n-1]
			}
		}
	}
}

func (x *X) clause(cl *Clause) *SpecExpr {
	if cl.Expr == nil {
		pe, err := parseSpecExpr(cl.Text)
		if err != nil {
			fail("%s:%d: %v", cl.File, cl.Line, err)
		}
		cl.Expr = pe
	}
	return cl.Expr
}

func (x *X) calleeNames(fn *types.Func, recv *Value, args []Value) map[string]Value {
	sig := fn.Type().(*types.Signature)
	names := map[string]Value{}
	if recv != nil && sig.Recv() != nil {
		rn := sig.Recv().Name()
		if rn == "" || rn == "_" {
			rn = "self"
		}
		names[rn] = *recv
		names["self"] = *recv
	}
	for i := 0; i < sig.Params().Len() && i < len(args); i++ {
		pn := sig.Params().At(i).Name()
		if pn == "" || pn == "_" {
			pn = fmt.Sprintf("p%d", i)
		}
		names[pn] = args[i]
		names[fmt.Sprintf("p%d", i)] = args[i]
	}
	return names
}

func (x *X) applyContract(f *Frame, st *State, spec *FuncSpec, fn *types.Func, recv *Value, args []Value, call *ast.CallExpr) []Value {
	c := x.c
	sig := fn.Type().(*types.Signature)
	names := x.calleeNames(fn, recv, args)
	short := shortFuncName(fn.FullName())
	ord := 0
	if call != nil {
		ord = f.callOrd[call]
	}
	pos := x.pos(f.curPos)
	if call != nil {
		pos = x.pos(call.Pos())
	}
	env := &SpecEnv{x: x, st: st, old: nil, names: names, pkg: fn.Pkg()}
	// receiver must not be nil for pointer receivers (the callee would panic on first field access)
	if recv != nil {
		if _, isPtr := recv.T.Underlying().(*types.Pointer); isPtr && !spec.Extern {
			x.panicCheck(st, "nil", Not(Eq(recv.S(), BVInt(0, 64))), f.curPos, "nil receiver for "+short)
		}
	}
	for i := range spec.Requires {
		cl := &spec.Requires[i]
		t := x.specBool(env, x.clause(cl))
		nm := fmt.Sprintf("pre:%s#%d.%d", short, ord, i+1)
		if cl.Name != "" {
			nm = fmt.Sprintf("pre:%s#%d:%s", short, ord, cl.Name)
		}
		c.obligeSplit(nm, "pre", st.pc, t, pos, cl.Text) // one obligation per conjunct
		c.assume(st.pc, t)
	}
	oldSt := st.clone()
	// havoc frame
	if spec.ModAll || (spec.Mode == "abstract" && !spec.Trusted && len(spec.Modifies) == 0 && !spec.ModNothing) {
		// abstract-mode callees have an unchecked heap frame: unless the contract lists one
		// (then it is an assumption), everything reachable from the arguments is havocked
		x.havocReachable(st, recv, args, fn.FullName())
	} else if spec.Mode == "abstract" && !spec.Trusted {
		c.assumption("declared heap frame of abstract-mode function " + shortFuncName(spec.Key) + " is assumed, not checked")
	}
	for _, m := range spec.Modifies {
		x.havocTarget(env, st, m, spec)
	}
	// allocation may have happened
	x.bumpAlloc(st)
	// results
	var vals []Value
	for i := 0; i < sig.Results().Len(); i++ {
		rt := sig.Results().At(i).Type()
		v := c.freshValue("r_"+lastName(short), rt)
		x.wfValue(st, v)
		vals = append(vals, v)
	}
	pnames := map[string]Value{}
	for k, v := range names {
		pnames[k] = v
	}
	bindResults(pnames, sig, vals)
	// the callee's ghost variables are existentially quantified from the caller's point of view
	for _, gv := range spec.GhostVars {
		gt, err := x.prog.resolveTypeText(gv.Type, fn.Pkg())
		if err != nil {
			fail("%s: ghost var %s: %v", spec.Key, gv.Name, err)
		}
		pnames[gv.Name] = c.freshValue("gx_"+gv.Name, gt)
	}
	penv := &SpecEnv{x: x, st: st, old: oldSt, names: pnames, oldNames: names, pkg: fn.Pkg()}
	for i := range spec.Ensures {
		cl := &spec.Ensures[i]
		t := x.specBool(penv, x.clause(cl))
		c.assume(st.pc, t)
	}
	for i := range spec.Assumes {
		cl := &spec.Assumes[i]
		t := x.specBool(penv, x.clause(cl))
		c.assume(st.pc, t)
		c.assumption("assumed (unproved) postcondition of " + shortFuncName(spec.Key) + ": " + cl.Text)
	}
	for _, fr := range spec.Fresh {
		pe, err := parseSpecExpr(fr)
		if err != nil {
			fail("%v", err)
		}
		v := x.specEval(penv, pe)
		r := v.C[0]
		c.assume(st.pc, Or(Eq(r, BVInt(0, 64)), And(Not(bvcmp("bvult", r, c.alloc(oldSt))), bvcmp("bvult", r, c.alloc(st)))))
	}
	if spec.Trusted {
		c.assumption("assumed contract: " + spec.Key)
	}
	return vals
}

// checkCallsites: caller-side requirements pinned to one call site (callee name + ordinal),
// evaluated in the caller's scope just before the call; arg0..argN name the actual arguments,
// recv the receiver of a method call.
func (x *X) checkCallsites(f *Frame, st *State, fn *types.Func, recv *Value, args []Value, call *ast.CallExpr) {
	if f.spec == nil || !f.top || call == nil {
		return
	}
	ord := f.callOrd[call]
	for _, cs := range f.spec.Callsites {
		if cs.Ord != ord || !calleeMatches(cs.Callee, fn) {
			continue
		}
		cs.used = true
		cenv := x.specEnvFor(f, st, call.Pos())
		nn := map[string]Value{}
		for k, v := range cenv.names {
			nn[k] = v
		}
		for i, a := range args {
			nn[fmt.Sprintf("arg%d", i)] = a
		}
		if recv != nil {
			nn["recv"] = *recv
		}
		cenv.names = nn
		t := x.specBool(cenv, x.clause(&cs.Clause))
		nm := fmt.Sprintf("callsite:%s#%d", cs.Callee, ord)
		if cs.Clause.Name != "" {
			nm += ":" + cs.Clause.Name
		}
		x.c.obligeNamed(nm, "callsite", st.pc, t, x.pos(call.Pos()), cs.Clause.Text)
	}
}

func lastName(s string) string {
	if i := strings.LastIndex(s, "."); i >= 0 {
		return s[i+1:]
	}
	return s
}

func calleeMatches(pattern string, fn *types.Func) bool {
	full := fn.FullName()
	if pattern == full || pattern == fn.Name() {
		return true
	}
	short := shortFuncName(full)
	return strings.HasSuffix(short, pattern) || strings.HasSuffix(full, "."+pattern)
}

func (x *X) bumpAlloc(st *State) {
	c := x.c
	cur := c.alloc(st)
	na := c.fresh("alloc", SRef)
	c.assume(st.pc, bvcmp("bvuge", na, cur))
	st.heaps[allocName] = na
	if st.wlog != nil {
		*st.wlog = append(*st.wlog, WriteRec{allocName, nil, st.pc})
	}
}

// wfValue assumes Go's type invariants of a value: slices have len <= cap <= 2^40; nil slices are empty.
func (x *X) wfValue(st *State, v Value) {
	l := layoutOf(v.T)
	// every reference held by a value was allocated before now
	for i, comp := range l.Comps {
		if comp.Sort != SRef || i >= len(v.C) {
			continue
		}
		switch comp.T.Underlying().(type) {
		case *types.Pointer, *types.Map, *types.Interface, *types.Chan:
			x.c.assume(st.pc, bvcmp("bvult", v.C[i], x.c.alloc(st)))
		}
	}
	for i := 0; i+3 < len(l.Comps) && i+3 < len(v.C); i++ {
		if strings.HasSuffix(l.Comps[i].Path, ".ref") && strings.HasSuffix(l.Comps[i+3].Path, ".cap") {
			ref, off, ln, cp := v.C[i], v.C[i+1], v.C[i+2], v.C[i+3]
			x.c.assume(st.pc, And(bvcmp("bvule", ln, cp), bvcmp("bvule", cp, sliceMax), bvcmp("bvule", off, sliceMax),
				Implies(Eq(ref, BVInt(0, 64)), Eq(cp, BVInt(0, 64))),
				bvcmp("bvult", ref, x.c.alloc(st))))
		}
	}
}

// havocTarget havocs one `modifies` entry.
func (x *X) havocTarget(env *SpecEnv, st *State, text string, spec *FuncSpec) {
	c := x.c
	pe, err := parseSpecExpr(text)
	if err != nil {
		fail("%s: bad modifies %q: %v", spec.Key, text, err)
	}
	if pe.Kind != "go" {
		fail("%s: bad modifies %q", spec.Key, text)
	}
	switch n := pe.Go.(type) {
	case *ast.Ident:
		// ghost global or package variable
		if n.Name == "Store" {
			c.setHeap(st, "$g!Store", c.fresh("Store", SArr("KeyT", "OptBytes")), nil)
			return
		}
		if n.Name == "heaps" {
			// every Go heap known so far (pointer, element and map heaps), but no ghost state:
			// frame of library decoders that fill an interface{} argument by reflection
			var names []string
			for h := range st.heaps {
				if isGoHeap(h) {
					names = append(names, h)
				}
			}
			sort.Strings(names)
			for _, h := range names {
				c.setHeap(st, h, c.fresh("hv", st.hsorts[h]), nil)
			}
			st.lazyAll = true
			if st.wlog != nil {
				*st.wlog = append(*st.wlog, WriteRec{lazyAllName, nil, st.pc})
			}
			return
		}
		if g, ok := x.prog.contracts.ghostGlobals[n.Name]; ok {
			s, err := x.prog.sortOfTypeText(g, env.pkg)
			if err != nil {
				fail("%v", err)
			}
			c.setHeap(st, "$g!"+n.Name, c.fresh(n.Name, s), nil)
			return
		}
		if env.pkg != nil {
			if gv, ok := env.pkg.Scope().Lookup(n.Name).(*types.Var); ok {
				x.writeGlobal(st, gv, c.freshValue("g_"+n.Name, gv.Type()))
				return
			}
		}
		fail("%s: modifies %q: unknown name", spec.Key, text)
	case *ast.StarExpr:
		p := x.specGo(env, pe, n.X)
		pt, ok := p.T.Underlying().(*types.Pointer)
		if !ok {
			fail("%s: modifies *%s: not a pointer", spec.Key, text)
		}
		c.storePtr(st, pt.Elem(), p.S(), c.freshValue("mod", pt.Elem()))
	case *ast.SelectorExpr:
		base := x.specGo(env, pe, n.X)
		pt, ok := base.T.Underlying().(*types.Pointer)
		if !ok {
			fail("%s: modifies %s: base is not a pointer", spec.Key, text)
		}
		lo, _, ft, ok := fieldRange(pt.Elem(), n.Sel.Name)
		if !ok {
			fail("%s: modifies %s: no such field", spec.Key, text)
		}
		c.storePtrRange(st, pt.Elem(), base.S(), lo, c.freshValue("mod_"+n.Sel.Name, ft))
	case *ast.CallExpr:
		id, _ := n.Fun.(*ast.Ident)
		if id != nil && id.Name == "reach" {
			// reach(pN): every heap reachable by type from the N-th actual argument (its static
			// type at the call site when the parameter is an interface); no ghost state unless
			// the native service is reachable
			an, _ := n.Args[0].(*ast.Ident)
			idx := -1
			if an != nil && len(an.Name) > 1 && an.Name[0] == 'p' {
				fmt.Sscanf(an.Name[1:], "%d", &idx)
			}
			v := x.specGo(env, pe, n.Args[0])
			t := v.T
			if _, isIface := t.Underlying().(*types.Interface); isIface && idx >= 0 && idx < len(x.argStatic) && x.argStatic[idx] != nil {
				if _, isTuple := x.argStatic[idx].(*types.Tuple); !isTuple {
					t = x.argStatic[idx]
				}
			}
			save := x.argStatic
			x.argStatic = nil
			x.havocReachable(st, nil, []Value{{T: t}}, spec.Key)
			x.argStatic = save
			return
		}
		if id == nil || (id.Name != "elems" && id.Name != "mapof") {
			fail("%s: bad modifies %q", spec.Key, text)
		}
		v := x.specGo(env, pe, n.Args[0])
		if id.Name == "mapof" {
			x.havocMap(st, v)
			return
		}
		sl, ok := v.T.Underlying().(*types.Slice)
		if !ok {
			fail("%s: elems() of non-slice", spec.Key)
		}
		el := layoutOf(sl.Elem())
		for k := range el.Comps {
			c.setInnerArr(st, sl.Elem(), k, v.C[0], c.fresh("model", SArr(SBV(64), el.Comps[k].Sort)))
		}
	default:
		fail("%s: bad modifies %q", spec.Key, text)
	}
}

func (x *X) havocMap(st *State, m Value) {
	c := x.c
	u := m.T.Underlying().(*types.Map)
	hasName, has, ksort := x.mapHeaps(st, m.T)
	c.setHeap(st, hasName, Store(has, m.S(), c.fresh("mhas", SArr(ksort, SBool))), m.S())
	for _, comp := range layoutOf(u.Elem()).Comps {
		name := "M!" + typeKey(m.T) + "!val" + comp.Path
		vh := c.heap(st, name, SArr(SRef, SArr(ksort, comp.Sort)))
		c.setHeap(st, name, Store(vh, m.S(), c.fresh("mval", SArr(ksort, comp.Sort))), m.S())
	}
	ln := "M!" + typeKey(m.T) + "!len"
	lh := c.heap(st, ln, SArr(SRef, SBV(64)))
	c.setHeap(st, ln, Store(lh, m.S(), c.fresh("mlen", SBV(64))), m.S())
}

// reachableHeaps lists every heap (name -> sort) reachable by type from t.
func (x *X) reachableHeaps(t types.Type, out map[string]Sort, seen map[string]bool, all *bool, store *bool) {
	key := typeKey(t)
	if seen[key] {
		return
	}
	seen[key] = true
	if strings.HasSuffix(key, "native.NativeService") || strings.HasSuffix(key, "storage.CacheDB") {
		*store = true
	}
	switch u := t.Underlying().(type) {
	case *types.Pointer:
		for _, comp := range layoutOf(u.Elem()).Comps {
			out[ptrHeapName(u.Elem(), comp.Path)] = SArr(SRef, comp.Sort)
		}
		x.reachableHeaps(u.Elem(), out, seen, all, store)
	case *types.Slice:
		for _, comp := range layoutOf(u.Elem()).Comps {
			out[elemHeapName(u.Elem(), comp.Path)] = SArr(SRef, SArr(SBV(64), comp.Sort))
		}
		x.reachableHeaps(u.Elem(), out, seen, all, store)
	case *types.Array:
		x.reachableHeaps(u.Elem(), out, seen, all, store)
	case *types.Map:
		kl := layoutOf(u.Key())
		if len(kl.Comps) == 1 {
			ks := kl.Comps[0].Sort
			out["M!"+key+"!has"] = SArr(SRef, SArr(ks, SBool))
			out["M!"+key+"!len"] = SArr(SRef, SBV(64))
			for _, comp := range layoutOf(u.Elem()).Comps {
				out["M!"+key+"!val"+comp.Path] = SArr(SRef, SArr(ks, comp.Sort))
			}
		}
		x.reachableHeaps(u.Key(), out, seen, all, store)
		x.reachableHeaps(u.Elem(), out, seen, all, store)
	case *types.Struct:
		for i := 0; i < u.NumFields(); i++ {
			x.reachableHeaps(u.Field(i).Type(), out, seen, all, store)
		}
	case *types.Interface:
		if isErrorType(t) {
			return
		}
		if u.NumMethods() == 0 {
			// the empty interface can hold anything
			*all = true
			*store = true
			return
		}
		// a non-empty interface can hold only values of types that implement it: what it
		// reaches is what those types reach (boxed values live in the pointer heaps of their type)
		for _, it := range x.implementers(key, u) {
			x.reachableHeaps(types.NewPointer(it), out, seen, all, store)
		}
	case *types.Signature, *types.Chan:
		// a closure or a channel peer may hold anything
		*all = true
		*store = true
	}
}

// implementers: the named non-interface types of all loaded packages (and their imports) whose
// value or pointer method set satisfies the interface.
func (x *X) implementers(key string, u *types.Interface) []types.Type {
	if x.implCache == nil {
		x.implCache = map[string][]types.Type{}
	}
	if r, ok := x.implCache[key]; ok {
		return r
	}
	var paths []string
	for path := range x.prog.allPkgs {
		paths = append(paths, path)
	}
	sort.Strings(paths)
	res := []types.Type{}
	for _, path := range paths {
		sc := x.prog.allPkgs[path].Scope()
		for _, nm := range sc.Names() {
			tn, ok := sc.Lookup(nm).(*types.TypeName)
			if !ok || tn.IsAlias() {
				continue
			}
			nt, ok := tn.Type().(*types.Named)
			if !ok || nt.TypeParams().Len() > 0 {
				continue
			}
			if _, isIface := nt.Underlying().(*types.Interface); isIface {
				continue
			}
			if types.Implements(nt, u) || types.Implements(types.NewPointer(nt), u) {
				res = append(res, nt)
			}
		}
	}
	x.implCache[key] = res
	return res
}

// havocReachable: an unknown callee may modify anything reachable from its arguments.
func (x *X) havocReachable(st *State, recv *Value, args []Value, who string) {
	c := x.c
	out := map[string]Sort{}
	seen := map[string]bool{}
	all, store := false, false
	if recv != nil {
		x.reachableHeaps(recv.T, out, seen, &all, &store)
	}
	for i, a := range args {
		if a.T != nil {
			t := a.T
			if _, isIface := t.Underlying().(*types.Interface); isIface && i < len(x.argStatic) && x.argStatic[i] != nil && len(x.argStatic) == len(args) {
				if _, stIface := x.argStatic[i].Underlying().(*types.Interface); !stIface {
					if _, isTuple := x.argStatic[i].(*types.Tuple); !isTuple {
						t = x.argStatic[i]
					}
				}
			}
			x.reachableHeaps(t, out, seen, &all, &store)
		}
	}
	if all {
		// every heap in use gets a fresh symbol below; every other Go heap, including ones
		// this function has not named yet, becomes arbitrary on first use (lazyAll)
		for h, s := range st.heaps {
			if isGoHeap(h) {
				out[h] = s.Sort
			}
		}
		st.lazyAll = true
		if st.wlog != nil {
			*st.wlog = append(*st.wlog, WriteRec{lazyAllName, nil, st.pc})
		}
		c.note("call to " + who + " havocs every heap (interface/function argument)")
	}
	var names []string
	for h := range out {
		names = append(names, h)
	}
	sort.Strings(names)
	for _, h := range names {
		// a heap already in use gets a fresh symbol now; the others are only marked and get
		// theirs if they are ever used (old() reads the entry state, which is separate)
		c.lazyHavoc(st, h, out[h])
	}
	if store {
		c.heap(st, "$g!Store", SArr("KeyT", "OptBytes"))
		c.setHeap(st, "$g!Store", c.fresh("Store", SArr("KeyT", "OptBytes")), nil)
		for g, ts := range x.prog.contracts.ghostGlobals {
			s, err := x.prog.sortOfTypeText(ts, nil)
			if err == nil {
				c.heap(st, "$g!"+g, s)
				c.setHeap(st, "$g!"+g, c.fresh(g, s), nil)
			}
		}
	}
}

// codecDefaultFrame: assumed frame of uncontracted record codecs (the C04 family):
//   T.Serialization(sink *common.ZeroCopySink)       writes only the sink (its buffer field and bytes)
//   T.Deserialization(source *common.ZeroCopySource) writes only its receiver (and what the receiver's
//                                                    type reaches) and the source cursor
// Returns false when the callee does not have one of these shapes.
func (x *X) codecDefaultFrame(st *State, sig *types.Signature, name string, recv *Value, args []Value) bool {
	if recv == nil || len(args) != 1 || args[0].T == nil {
		return false
	}
	pt, ok := args[0].T.(*types.Pointer)
	if !ok {
		return false
	}
	nt, ok := pt.Elem().(*types.Named)
	if !ok || nt.Obj().Pkg() == nil || nt.Obj().Pkg().Path() != modulePath+"/common" {
		return false
	}
	c := x.c
	switch {
	case strings.HasSuffix(name, ".Serialization") && nt.Obj().Name() == "ZeroCopySink":
		c.assumption("uncontracted T.Serialization(sink) methods write only their sink (assumed frame; the record codecs are property C04)")
		sink := args[0]
		lo, _, ft, _ := fieldRange(pt.Elem(), "buf")
		oldBuf := c.loadPtrRange(st, pt.Elem(), sink.S(), lo, lo+4, ft)
		nb := c.freshValue("ser_buf", ft)
		x.wfValue(st, nb)
		c.storePtrRange(st, pt.Elem(), sink.S(), lo, nb)
		// bytes of the old backing array may be overwritten in place; other arrays are untouched
		c.setInnerArr(st, tUint8, 0, oldBuf.C[0], c.fresh("ser_bytes", SArr(SBV(64), SBV(8))))
		return true
	case strings.HasSuffix(name, ".Deserialization") && nt.Obj().Name() == "ZeroCopySource":
		c.assumption("uncontracted T.Deserialization(source) methods write only their receiver and the source cursor (assumed frame; property C04)")
		src := args[0]
		lo, _, ft, _ := fieldRange(pt.Elem(), "off")
		c.storePtrRange(st, pt.Elem(), src.S(), lo, c.freshValue("des_off", ft))
		// receiver: everything reachable from its type except byte arrays that existed before
		out := map[string]Sort{}
		seen := map[string]bool{}
		all, store := false, false
		x.reachableHeaps(recv.T, out, seen, &all, &store)
		var names []string
		for h := range out {
			if h == elemHeapName(tUint8, "") {
				continue // decoded byte strings are views of the input or fresh copies; existing bytes are not written
			}
			names = append(names, h)
		}
		sort.Strings(names)
		for _, h := range names {
			c.heap(st, h, out[h])
			c.setHeap(st, h, c.fresh("des", out[h]), nil)
		}
		return true
	}
	return false
}

func (x *X) unknownCall(f *Frame, st *State, call *ast.CallExpr, sig *types.Signature, name string, recv *Value, args []Value) []Value {
	c := x.c
	if !c.abstract {
		fail("call to %s has no contract (precise mode) at %s", name, x.pos(call.Pos()))
	}
	c.note("uncontracted call: " + name)
	if !x.codecDefaultFrame(st, sig, name, recv, args) {
		x.havocReachable(st, recv, args, name)
	}
	x.bumpAlloc(st)
	var vals []Value
	for i := 0; i < sig.Results().Len(); i++ {
		v := c.freshValue("u_"+lastName(shortFuncName(name)), sig.Results().At(i).Type())
		x.wfValue(st, v)
		vals = append(vals, v)
	}
	return vals
}

// inlineCall executes the callee's body in the caller's state.
func (x *X) inlineCall(f *Frame, st *State, fi *FuncInfo, recv *Value, args []Value, call *ast.CallExpr) []Value {
	if f.depth > 8 {
		fail("inline depth exceeded at %s", fi.Obj.FullName())
	}
	nf := x.newFrame(fi, nil)
	nf.depth = f.depth + 1
	nf.old = f.old
	sig := fi.Obj.Type().(*types.Signature)
	if recv != nil && sig.Recv() != nil {
		x.bindParam(nf, st, sig.Recv(), *recv)
	}
	for i := 0; i < sig.Params().Len(); i++ {
		x.bindParam(nf, st, sig.Params().At(i), args[i])
	}
	for i := 0; i < sig.Results().Len(); i++ {
		r := sig.Results().At(i)
		nf.results = append(nf.results, r)
		if r.Name() != "" && r.Name() != "_" {
			x.bindParam(nf, st, r, zeroValue(r.Type()))
		}
	}
	work := st.clone()
	out := x.block(nf, work, fi.Decl.Body.List)
	if out != nil && !out.pc.isFalse() {
		var vals []Value
		for _, r := range nf.results {
			v, _ := x.readVar(out, r)
			vals = append(vals, v)
		}
		x.finishReturn(nf, out, vals)
	}
	// stash results in synthetic vars, merge, read back
	var rvars []*types.Var
	for i := 0; i < sig.Results().Len(); i++ {
		rvars = append(rvars, types.NewVar(token.NoPos, fi.Pkg.Types, fmt.Sprintf("$ret%d", i), sig.Results().At(i).Type()))
	}
	for k, rs := range nf.rets {
		for i, rv := range rvars {
			rs.vars[rv] = Value{T: rv.Type(), C: nf.retVals[k][i].C}
		}
	}
	merged := x.c.mergeAll(nf.rets)
	if merged == nil {
		st.pc = TFalse
		var vals []Value
		for _, rv := range rvars {
			vals = append(vals, zeroValue(rv.Type()))
		}
		return vals
	}
	var vals []Value
	for _, rv := range rvars {
		vals = append(vals, merged.vars[rv])
		delete(merged.vars, rv)
	}
	wl := st.wlog
	*st = *merged
	st.wlog = wl
	return vals
}

func (x *X) bindParam(f *Frame, st *State, p *types.Var, v Value) {
	v = Value{T: p.Type(), C: v.C}
	if f.boxedVars[p] {
		r := x.c.newRef(st, "box_"+p.Name())
		st.boxed[p] = r
		x.c.storePtr(st, p.Type(), r, v)
		return
	}
	st.vars[p] = v
}

// ---------------------------------------------------------------------------------------
// builtins

func (x *X) builtin(f *Frame, st *State, call *ast.CallExpr, name string) []Value {
	c := x.c
	switch name {
	case "len":
		v := x.expr(f, st, call.Args[0])
		r := x.lenOf(st, v)
		return []Value{r}
	case "cap":
		v := x.expr(f, st, call.Args[0])
		if _, ok := v.T.Underlying().(*types.Slice); ok {
			return []Value{scalar(tInt, v.C[3])}
		}
		return []Value{x.lenOf(st, v)}
	case "new":
		t := f.info.TypeOf(call.Args[0])
		r := c.newRef(st, "new")
		c.storePtr(st, t, r, zeroValue(t))
		return []Value{scalar(types.NewPointer(t), r)}
	case "make":
		return []Value{x.makeBuiltin(f, st, call)}
	case "append":
		return []Value{x.appendBuiltin(f, st, call)}
	case "copy":
		return []Value{x.copyBuiltin(f, st, call)}
	case "delete":
		m := x.expr(f, st, call.Args[0])
		mt := m.T.Underlying().(*types.Map)
		k := x.exprTyped(f, st, call.Args[1], mt.Key())
		x.mapDelete(st, m, x.mapKeyTerm(k))
		return nil
	case "panic":
		if c.nopanic {
			c.oblige("nopanic:panic", st.pc, TFalse, x.pos(call.Pos()), "explicit panic reachable")
		}
		st.pc = TFalse
		return nil
	case "print", "println":
		return nil
	case "recover":
		return []Value{zeroValue(types.NewInterfaceType(nil, nil))}
	case "min", "max":
		a := x.expr(f, st, call.Args[0])
		for _, e := range call.Args[1:] {
			b := x.expr(f, st, e)
			rt := f.info.TypeOf(call)
			a, b = x.typed(a, rt), x.typed(b, rt)
			op := token.LSS
			if name == "max" {
				op = token.GTR
			}
			lt := binop(op, a, b, nil)
			a = iteValue(lt.S(), a, b)
		}
		return []Value{a}
	}
	fail("unsupported builtin %s at %s", name, x.pos(call.Pos()))
	return nil
}

const makeLimitBytes = int64(1) << 48

func sizeofType(t types.Type) int64 {
	sz := types.SizesFor("gc", "amd64").Sizeof(t)
	if sz < 1 {
		sz = 1
	}
	return sz
}

func (x *X) makeBuiltin(f *Frame, st *State, call *ast.CallExpr) Value {
	c := x.c
	t := f.info.TypeOf(call.Args[0])
	switch u := t.Underlying().(type) {
	case *types.Slice:
		n := x.expr(f, st, call.Args[1])
		nt := x.indexTerm(x.typed(n, tInt))
		cp := nt
		if len(call.Args) > 2 {
			cv := x.expr(f, st, call.Args[2])
			cp = x.indexTerm(x.typed(cv, tInt))
		}
		esz := sizeofType(u.Elem())
		limit := BVInt(makeLimitBytes/esz, 64)
		// runtime.makeslice panics when len<0, len>cap or cap*size exceeds the address space
		ok := And(bvcmp("bvule", nt, cp), bvcmp("bvule", cp, limit))
		ord := f.makeOrd[call]
		if c.nopanic {
			c.obligeNamed(fmt.Sprintf("nopanic:make#%d", ord), "nopanic:make", st.pc, ok, x.pos(call.Pos()), nodeText(x.prog.fset, call))
		}
		st.pc = c.define("pc", And(st.pc, ok))
		// standing assumption: an allocation that succeeds is at most 2^40 elements
		c.assume(st.pc, bvcmp("bvule", cp, sliceMax))
		r := c.newRef(st, "mk")
		el := layoutOf(u.Elem())
		for k := range el.Comps {
			c.setInnerArr(st, u.Elem(), k, r, zeroOf(SArr(SBV(64), el.Comps[k].Sort)))
		}
		return mkSlice(t, r, BVInt(0, 64), nt, cp)
	case *types.Map:
		return x.newMap(st, t)
	case *types.Chan:
		return scalar(t, c.newRef(st, "chan"))
	}
	fail("unsupported make(%v)", t)
	return Value{}
}

// copyRange: returns inner' equal to dst except dst[dOff+j] = src[sOff+j] for j < n.
func (x *X) copyRange(st *State, dst *Term, dOff *Term, src *Term, sOff *Term, n *Term) *Term {
	c := x.c
	if nv, ok := n.litVal(); ok && nv.IsInt64() && nv.Int64() <= 64 {
		out := dst
		for j := int64(0); j < nv.Int64(); j++ {
			out = Store(out, bvbin("bvadd", dOff, BVInt(j, 64)), Select(src, bvbin("bvadd", sOff, BVInt(j, 64))))
		}
		return c.define("cp", out)
	}
	res := c.fresh("cp", dst.Sort)
	j := BoundVar("cj", SBV(64))
	rel := bvbin("bvsub", j, dOff)
	in := bvcmp("bvult", rel, n)
	body := Eq(Select(res, j), Ite(in, Select(src, bvbin("bvadd", sOff, rel)), Select(dst, j)))
	c.assume(st.pc, Quant("forall", []*Term{j}, body, []*Term{Select(res, j)}))
	return res
}

func (x *X) appendBuiltin(f *Frame, st *State, call *ast.CallExpr) Value {
	c := x.c
	s := x.expr(f, st, call.Args[0])
	stT := f.info.TypeOf(call)
	s = x.typed(s, stT)
	sl := stT.Underlying().(*types.Slice)
	elT := sl.Elem()
	el := layoutOf(elT)
	ref, off, ln, cp := sliceParts(s)
	if len(call.Args) == 1 {
		return s
	}
	var n *Term
	type srcT struct {
		single []Value
		slice  *Value
	}
	var src srcT
	if call.Ellipsis != token.NoPos {
		v := x.expr(f, st, call.Args[1])
		if b, ok := v.T.Underlying().(*types.Basic); ok && b.Info()&types.IsString != 0 {
			v = x.bytesFromString(st, x.typed(v, tString), types.NewSlice(tUint8))
		}
		v = x.typed(v, stT)
		src.slice = &v
		n = v.C[2]
	} else {
		for _, a := range call.Args[1:] {
			src.single = append(src.single, x.exprTyped(f, st, a, elT))
		}
		n = BVInt(int64(len(src.single)), 64)
	}
	newLen := c.define("alen", bvbin("bvadd", ln, n))
	c.assume(st.pc, bvcmp("bvule", newLen, sliceMax)) // standing assumption: no slice beyond 2^40 elements
	fits := c.define("fits", And(bvcmp("bvule", newLen, cp), Not(Eq(ref, BVInt(0, 64)))))
	newRef := c.newRef(st, "app")
	newCap := c.fresh("acap", SBV(64))
	c.assume(st.pc, And(bvcmp("bvuge", newCap, newLen), bvcmp("bvule", newCap, sliceMax), bvcmp("bvugt", newCap, BVInt(0, 64))))
	outRef := Ite(fits, ref, newRef)
	outCap := Ite(fits, cp, newCap)
	start := bvbin("bvadd", off, ln)
	for k := range el.Comps {
		inner := c.innerArr(st, elT, k, ref)
		var upd *Term
		if src.slice != nil {
			sinner := c.innerArr(st, elT, k, src.slice.C[0])
			upd = x.copyRange(st, inner, start, sinner, src.slice.C[1], n)
			if b, ok := elT.Underlying().(*types.Basic); ok && b.Kind() == types.Uint8 {
				// abstract content of the result: concatenation of the two abstract contents
				// (bcat is interpreted as byte-string concatenation; a ground fact per append)
				c.assume(st.pc, Eq(App("bytes_of", SBytes, upd, off, newLen),
					App("bcat", SBytes, App("bytes_of", SBytes, inner, off, ln), App("bytes_of", SBytes, sinner, src.slice.C[1], n))))
			}
		} else {
			upd = inner
			for j, v := range src.single {
				upd = Store(upd, bvbin("bvadd", start, BVInt(int64(j), 64)), v.C[k])
			}
			upd = c.define("au", upd)
		}
		// in place: old array updated; reallocated: new array gets the updated copy, old untouched
		name, h := c.elemHeap(st, elT, el.Comps[k])
		nh := Ite(fits, Store(h, ref, upd), Store(h, newRef, upd))
		c.setHeap(st, name, c.define("e", nh), nil)
		if st.wlog != nil {
			// precise log: the write goes to ref or to a fresh array
			(*st.wlog)[len(*st.wlog)-1].Ref = ref
		}
	}
	return mkSlice(stT, c.define("aref", outRef), off, newLen, c.define("acap", outCap))
}

func (x *X) copyBuiltin(f *Frame, st *State, call *ast.CallExpr) Value {
	c := x.c
	dst := x.expr(f, st, call.Args[0])
	srcv := x.expr(f, st, call.Args[1])
	if b, ok := srcv.T.Underlying().(*types.Basic); ok && b.Info()&types.IsString != 0 {
		srcv = x.bytesFromString(st, x.typed(srcv, tString), types.NewSlice(tUint8))
	}
	sl := dst.T.Underlying().(*types.Slice)
	elT := sl.Elem()
	el := layoutOf(elT)
	n := c.define("cpn", Ite(bvcmp("bvult", dst.C[2], srcv.C[2]), dst.C[2], srcv.C[2]))
	for k := range el.Comps {
		dinner := c.innerArr(st, elT, k, dst.C[0])
		sinner := c.innerArr(st, elT, k, srcv.C[0])
		upd := x.copyRange(st, dinner, dst.C[1], sinner, srcv.C[1], n)
		c.setInnerArr(st, elT, k, dst.C[0], upd)
	}
	return scalar(tInt, n)
}

var _ = constant.MakeBool
