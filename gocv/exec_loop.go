package main

import (
	"fmt"
	"go/ast"
	"go/token"
	"go/types"
	"sort"
	"strings"
)

type loopDesc struct {
	node   ast.Node
	ord    int
	label  string
	cond   func(st *State) *Term // nil = true
	pre    func(st *State)       // executed at the start of each iteration (range: bind key/value)
	body   *ast.BlockStmt
	post   func(st *State) *State
	pos    token.Pos
	extra  []types.Object // additional havocked vars (hidden range index)
	autoInv []func(st *State) *Term
	names  map[string]func(st *State) Value
}

// assignedVars collects local variables assigned inside nodes (declared outside them).
func (x *X) assignedVars(f *Frame, nodes []ast.Node, outerEnd token.Pos) []types.Object {
	seen := map[types.Object]bool{}
	var out []types.Object
	var rootIdent func(e ast.Expr) *ast.Ident
	rootIdent = func(e ast.Expr) *ast.Ident {
		switch t := e.(type) {
		case *ast.Ident:
			return t
		case *ast.ParenExpr:
			return rootIdent(t.X)
		case *ast.SelectorExpr:
			if _, ok := f.info.Selections[t]; ok {
				// through a pointer the write goes to the heap, not the variable
				if _, isPtr := f.info.TypeOf(t.X).Underlying().(*types.Pointer); isPtr {
					return nil
				}
				return rootIdent(t.X)
			}
			return nil
		case *ast.IndexExpr:
			if _, ok := f.info.TypeOf(t.X).Underlying().(*types.Array); ok {
				return rootIdent(t.X)
			}
			return nil
		}
		return nil
	}
	add := func(e ast.Expr) {
		id := rootIdent(e)
		if id == nil || id.Name == "_" {
			return
		}
		obj := f.info.Uses[id]
		if obj == nil {
			obj = f.info.Defs[id]
		}
		v, ok := obj.(*types.Var)
		if !ok || v.IsField() {
			return
		}
		if v.Pkg() != nil && v.Parent() == v.Pkg().Scope() {
			return // globals are heaps
		}
		if !seen[v] {
			seen[v] = true
			out = append(out, v)
		}
	}
	for _, n := range nodes {
		if n == nil {
			continue
		}
		ast.Inspect(n, func(nd ast.Node) bool {
			switch t := nd.(type) {
			case *ast.AssignStmt:
				for _, l := range t.Lhs {
					add(l)
				}
			case *ast.IncDecStmt:
				add(t.X)
			case *ast.RangeStmt:
				if t.Tok == token.ASSIGN {
					if t.Key != nil {
						add(t.Key)
					}
					if t.Value != nil {
						add(t.Value)
					}
				}
			case *ast.SliceExpr:
				// slicing an array variable triggers copy-in/copy-out write back
				if _, ok := f.info.TypeOf(t.X).Underlying().(*types.Array); ok {
					add(t.X)
				}
			case *ast.FuncLit:
				return false
			}
			return true
		})
	}
	return out
}

// loop runs the ghost statements anchored on the loop (by ordinal) around the loop itself.
func (x *X) loop(f *Frame, st *State, L *loopDesc) *State {
	anchor := fmt.Sprintf("loop#%d", L.ord)
	if f.spec != nil && f.top {
		x.runGhostNames(f, st, "before", anchor, L.body.Lbrace+1, L)
	}
	out := x.loopCore(f, st, L)
	if out != nil && f.spec != nil && f.top {
		x.runGhostNames(f, out, "after", anchor, L.body.Lbrace+1, L)
	}
	return out
}

func (x *X) runGhostNames(f *Frame, st *State, where, anchor string, pos token.Pos, L *loopDesc) {
	for _, g := range f.spec.Ghost {
		if g.Where != where || g.Anchor != anchor {
			continue
		}
		g.used = true
		x.execGhost(f, st, g, pos)
	}
}

func (x *X) loopCore(f *Frame, st *State, L *loopDesc) *State {
	c := x.c
	spec := f.spec
	var invs []Clause
	var dec *Clause
	if spec != nil && f.top {
		invs = spec.LoopInv[L.ord]
		dec = spec.LoopDec[L.ord]
	}
	nodes := []ast.Node{L.body}
	if fs, ok := L.node.(*ast.ForStmt); ok {
		if fs.Post != nil {
			nodes = append(nodes, fs.Post)
		}
		if fs.Cond != nil {
			nodes = append(nodes, fs.Cond)
		}
	}
	mvars := x.assignedVars(f, nodes, L.pos)
	mvars = append(mvars, L.extra...)
	// ghost variables updated by `set` statements inside the body are discovered by the dry runs
	// below (execGhost records them) and havocked like assigned locals
	savedGhostSets := f.dryGhostSets
	f.dryGhostSets = map[string]bool{}
	baseVars := len(mvars)
	addGhostVars := func() {
		mvars = mvars[:baseVars]
		var gnames []string
		for n := range f.dryGhostSets {
			gnames = append(gnames, n)
		}
		sort.Strings(gnames)
		for _, n := range gnames {
			if gv, ok := f.ghostVars[n]; ok {
				mvars = append(mvars, gv)
			}
		}
	}

	havocVars := func(s *State) {
		for _, v := range mvars {
			if _, boxed := s.boxed[v]; boxed {
				continue
			}
			if _, ok := s.vars[v]; !ok {
				continue // declared inside the loop
			}
			s.vars[v] = c.freshValue("lv_"+v.Name(), v.Type())
		}
	}

	// --- discover modified heaps by dry runs (fixpoint over heap names) -------------------
	modHeaps := map[string]bool{}
	var finalLog []WriteRec
	var threshold int
	for iter := 0; iter < 6; iter++ {
		threshold = c.symN
		s1 := st.clone()
		havocVars(s1)
		var mhs []string
		for h := range modHeaps {
			mhs = append(mhs, h)
		}
		sort.Strings(mhs) // deterministic symbol numbering
		for _, h := range mhs {
			if h == lazyAllName {
				s1.lazyAll = true
				continue
			}
			// direct assignment: this havoc must not be logged as a write of the enclosing loop
			s1.heaps[h] = c.fresh("dh", s1.hsorts[h])
		}
		var log []WriteRec
		s1.wlog = &log
		x.dryIteration(f, s1, L)
		grew := false
		for _, w := range log {
			if !modHeaps[w.Heap] {
				modHeaps[w.Heap] = true
				grew = true
			}
		}
		finalLog = log
		nGhost := len(mvars)
		addGhostVars()
		if !grew && len(mvars) == nGhost {
			break
		}
	}
	for n := range f.dryGhostSets {
		if savedGhostSets != nil {
			savedGhostSets[n] = true // also modified from the point of view of an enclosing loop
		}
	}
	f.dryGhostSets = savedGhostSets
	// per heap: invariant refs or whole
	type hmod struct {
		whole bool
		refs  []*Term
	}
	mods := map[string]*hmod{}
	for _, w := range finalLog {
		m := mods[w.Heap]
		if m == nil {
			m = &hmod{}
			mods[w.Heap] = m
		}
		if w.Ref == nil || w.Ref.MaxSym > threshold || w.Ref.Bound {
			m.whole = true
			continue
		}
		dup := false
		for _, r := range m.refs {
			if r == w.Ref || r.String() == w.Ref.String() {
				dup = true
			}
		}
		if !dup {
			m.refs = append(m.refs, w.Ref)
		}
	}
	for h := range modHeaps {
		if mods[h] == nil {
			mods[h] = &hmod{whole: true}
		}
	}

	// --- invariants hold on entry ---------------------------------------------------------
	evalInv := func(s *State, cl *Clause) *Term {
		if cl.Expr == nil {
			pe, err := parseSpecExpr(cl.Text)
			if err != nil {
				fail("%s:%d: %v", cl.File, cl.Line, err)
			}
			cl.Expr = pe
		}
		env := x.specEnvFor(f, s, L.body.Lbrace+1)
		if L.names != nil {
			nn := map[string]Value{}
			for k, v := range env.names {
				nn[k] = v
			}
			for k, fn := range L.names {
				nn[k] = fn(s)
			}
			env.names = nn
		}
		return x.specBool(env, cl.Expr)
	}
	invName := func(i int, cl *Clause, kind string) string {
		if cl.Name != "" {
			return fmt.Sprintf("%s#L%d:%s", kind, L.ord, cl.Name)
		}
		return fmt.Sprintf("%s#L%d.%d", kind, L.ord, i+1)
	}
	entry := st.clone()
	if L.pre != nil {
		// range loops: key/value variables are not yet bound at entry; bind for invariant evaluation
		L.pre(entry)
	}
	for i := range invs {
		t := evalInv(entry, &invs[i])
		c.obligeSplit(invName(i, &invs[i], "inv-entry"), "inv-entry", st.pc, t, x.pos(L.pos), invs[i].Text)
	}
	for i, ai := range L.autoInv {
		c.obligeNamed(fmt.Sprintf("inv-entry#L%d.auto%d", L.ord, i+1), "inv-entry", st.pc, ai(entry), x.pos(L.pos), "auto invariant")
	}

	// --- loop head: havoc ---------------------------------------------------------------
	freshOnly := false
	if spec != nil && f.top {
		for _, m := range spec.LoopMod[L.ord] {
			if m == "fresh" {
				freshOnly = true
			}
		}
	}
	alloc0 := c.heap0(st, allocName, SRef)
	var realLog []WriteRec
	head := st.clone()
	if freshOnly {
		head.wlog = &realLog
	}
	havocVars(head)
	var hnames []string
	for h := range mods {
		hnames = append(hnames, h)
	}
	sort.Strings(hnames)
	for _, h := range hnames {
		if h == lazyAllName {
			// the body calls something that may change every heap, including ones not seen yet
			head.lazyAll = true
			continue
		}
		m := mods[h]
		srt := head.hsorts[h]
		cur := c.heap(head, h, srt)
		if h == allocName {
			na := c.fresh("alloc", SRef)
			c.assume(st.pc, bvcmp("bvuge", na, cur))
			head.heaps[h] = na
			continue
		}
		if m.whole || !srt.IsArr() || !strings.HasPrefix(string(srt), "(Array (_ BitVec 64)") {
			nh := c.fresh("lh", srt)
			if freshOnly && srt.IsArr() && strings.HasPrefix(string(srt), "(Array (_ BitVec 64)") &&
				(strings.HasPrefix(h, "H!") || strings.HasPrefix(h, "E!") || strings.HasPrefix(h, "M!")) {
				// `loop N modifies fresh`: only cells allocated since function entry are written
				// (checked below for every write), so older cells keep their value
				r := BoundVar("fr_q", SRef)
				c.assume(st.pc, Quant("forall", []*Term{r}, Implies(bvcmp("bvult", r, alloc0), Eq(Select(nh, r), Select(cur, r))), []*Term{Select(nh, r)}))
			}
			head.heaps[h] = nh
			continue
		}
		_, vs := srt.ArrParts()
		nh := cur
		for _, r := range m.refs {
			nh = Store(nh, r, c.fresh("lhv", vs))
		}
		head.heaps[h] = c.define("lh", nh)
	}
	// Go's type invariants of the havocked variables hold at every loop head: slice headers are
	// well formed and every reference they hold was allocated before now
	for _, v := range mvars {
		if _, boxed := head.boxed[v]; boxed {
			continue
		}
		if val, ok := head.vars[v]; ok && val.T != nil {
			x.wfValue(head, val)
		}
	}
	if L.pre != nil {
		L.pre(head)
	}
	var invTerms []*Term
	for i := range invs {
		t := evalInv(head, &invs[i])
		invTerms = append(invTerms, t)
		c.assume(head.pc, t)
	}
	for _, ai := range L.autoInv {
		c.assume(head.pc, ai(head))
	}
	var decBefore Value
	if dec != nil {
		if dec.Expr == nil {
			pe, err := parseSpecExpr(dec.Text)
			if err != nil {
				fail("%s:%d: %v", dec.File, dec.Line, err)
			}
			dec.Expr = pe
		}
		decBefore = x.specEval(x.specEnvFor(f, head, L.body.Lbrace+1), dec.Expr)
	}

	tgt := x.pushTarget(f, L.label, true)
	var exits []*State
	cond := TTrue
	if L.cond != nil {
		cond = L.cond(head)
	}
	if !cond.isTrue() {
		ex := head.clone()
		ex.pc = c.define("pc", And(head.pc, Not(cond)))
		exits = append(exits, ex)
	}
	body := head.clone()
	body.pc = c.define("pc", And(head.pc, cond))
	c.cover(fmt.Sprintf("loop#L%d-body", L.ord), body.pc, x.pos(L.pos))
	f.activeLoops = append(f.activeLoops, L) // ghost statements in the body may name this loop's itN / seqN
	end := x.block(f, body, L.body.List)
	f.activeLoops = f.activeLoops[:len(f.activeLoops)-1]
	x.popTarget(f)
	ends := append([]*State{}, tgt.conts...)
	if end != nil {
		ends = append(ends, end)
	}
	endSt := c.mergeAll(ends)
	if endSt != nil && L.post != nil {
		endSt = L.post(endSt)
	}
	if endSt != nil && !endSt.pc.isFalse() {
		if L.pre != nil {
			// for range loops bind key to the incremented index only for invariant evaluation
			tmp := endSt.clone()
			L.pre(tmp)
			for i := range invs {
				t := evalInv(tmp, &invs[i])
				c.obligeSplit(invName(i, &invs[i], "inv-preserve"), "inv-preserve", endSt.pc, t, x.pos(L.pos), invs[i].Text)
			}
			for i, ai := range L.autoInv {
				c.obligeNamed(fmt.Sprintf("inv-preserve#L%d.auto%d", L.ord, i+1), "inv-preserve", endSt.pc, ai(tmp), x.pos(L.pos), "auto invariant")
			}
		} else {
			for i := range invs {
				t := evalInv(endSt, &invs[i])
				c.obligeSplit(invName(i, &invs[i], "inv-preserve"), "inv-preserve", endSt.pc, t, x.pos(L.pos), invs[i].Text)
			}
			for i, ai := range L.autoInv {
				c.obligeNamed(fmt.Sprintf("inv-preserve#L%d.auto%d", L.ord, i+1), "inv-preserve", endSt.pc, ai(endSt), x.pos(L.pos), "auto invariant")
			}
		}
		if dec != nil {
			after := x.specEval(x.specEnvFor(f, endSt, L.body.Lbrace+1), dec.Expr)
			a, b := after, decBefore
			if isUntyped(a) {
				a = coerce(a, b.T)
			}
			var lt *Term
			if a.S().Sort == SInt {
				lt = And(App("<", SBool, a.S(), b.S()), App(">=", SBool, b.S(), Lit("0", SInt)))
			} else if isSigned(b.T) {
				lt = And(bvcmp("bvslt", a.S(), b.S()), bvcmp("bvsge", b.S(), BVInt(0, b.S().Sort.BVWidth())))
			} else {
				lt = bvcmp("bvult", a.S(), b.S())
			}
			c.obligeNamed(fmt.Sprintf("decreases#L%d", L.ord), "decreases", endSt.pc, lt, x.pos(L.pos), dec.Text)
		}
	}
	exits = append(exits, tgt.breaks...)
	if freshOnly {
		seen := map[string]bool{}
		for _, w := range realLog {
			if !(strings.HasPrefix(w.Heap, "H!") || strings.HasPrefix(w.Heap, "E!") || strings.HasPrefix(w.Heap, "M!")) {
				continue
			}
			if m := mods[w.Heap]; m != nil && !m.whole {
				// written only at loop-invariant references: havocked cell by cell at the loop head, the
				// "older cells keep their value" assumption was not made for this heap
				continue
			}
			goal := TFalse
			key := w.Heap + "@whole"
			if w.Ref != nil {
				goal = Not(bvcmp("bvult", w.Ref, alloc0))
				key = w.Heap + "@" + w.Ref.String() + "@" + w.PC.String()
			}
			if seen[key] {
				continue
			}
			seen[key] = true
			pc := w.PC
			if pc == nil {
				pc = head.pc
			}
			c.obligeNamed(fmt.Sprintf("frame-write#L%d", L.ord), "frame", pc, goal, x.pos(L.pos), "loop writes only memory allocated since function entry: "+w.Heap)
		}
		for _, e := range exits {
			if e != nil {
				e.wlog = st.wlog
			}
		}
		if st.wlog != nil {
			*st.wlog = append(*st.wlog, realLog...)
		}
	}
	return c.mergeAll(exits)
}

// dryIteration runs cond, body and post once with obligations suppressed, to log heap writes.
func (x *X) dryIteration(f *Frame, s *State, L *loopDesc) {
	c := x.c
	c.dry++
	nr := len(f.rets)
	nt := len(f.targets)
	nfacts := len(c.facts)
	savedWF := map[string]bool{}
	for k := range c.wfSeen {
		savedWF[k] = true
	}
	defer func() {
		c.wfSeen = savedWF
		c.dry--
		f.rets = f.rets[:nr]
		f.retVals = f.retVals[:nr]
		f.targets = f.targets[:nt]
		// facts assumed during a dry run talk about dry symbols only; drop them
		c.facts = c.facts[:nfacts]
		f.writeback = nil
	}()
	if L.pre != nil {
		L.pre(s)
	}
	cond := TTrue
	if L.cond != nil {
		cond = L.cond(s)
	}
	b := s.clone()
	b.pc = And(s.pc, cond)
	tgt := x.pushTarget(f, L.label, true)
	f.activeLoops = append(f.activeLoops, L)
	end := x.block(f, b, L.body.List)
	f.activeLoops = f.activeLoops[:len(f.activeLoops)-1]
	x.popTarget(f)
	ends := append([]*State{}, tgt.conts...)
	if end != nil {
		ends = append(ends, end)
	}
	if L.post != nil {
		for _, e := range ends {
			// each end state shares the write log
			L.post(e)
		}
	}
}

func (x *X) forStmt(f *Frame, st *State, n *ast.ForStmt, label string) *State {
	if n.Init != nil {
		st = x.stmt(f, st, n.Init)
		if st == nil {
			return nil
		}
	}
	L := &loopDesc{node: n, ord: f.loopOrd[n], label: label, body: n.Body, pos: n.Pos()}
	if n.Cond != nil {
		L.cond = func(s *State) *Term {
			t := x.cond(f, s, n.Cond)
			x.flushWriteback(f, s)
			return t
		}
	}
	if n.Post != nil {
		L.post = func(s *State) *State { return x.stmt(f, s, n.Post) }
	}
	x.autoBoundInvariant(f, st, n, L)
	return x.loop(f, st, L)
}

// autoBoundInvariant: for `for i := a; i < e; i++` where only the post statement assigns i
// and e is not assigned in the loop, add the (checked) invariant a <= i <= max(a, e).
func (x *X) autoBoundInvariant(f *Frame, st *State, n *ast.ForStmt, L *loopDesc) {
	if n.Cond == nil || n.Post == nil {
		return
	}
	be, ok := n.Cond.(*ast.BinaryExpr)
	if !ok || (be.Op != token.LSS && be.Op != token.LEQ) {
		return
	}
	iv, ok := be.X.(*ast.Ident)
	if !ok {
		return
	}
	inc, ok := n.Post.(*ast.IncDecStmt)
	if !ok || inc.Tok != token.INC {
		return
	}
	if pid, ok := inc.X.(*ast.Ident); !ok || pid.Name != iv.Name {
		return
	}
	obj, ok := f.info.Uses[iv].(*types.Var)
	if !ok {
		return
	}
	// i must not be assigned in the body; bound must not mention assigned vars
	bodyAssigned := x.assignedVars(f, []ast.Node{n.Body}, n.Pos())
	for _, v := range bodyAssigned {
		if v == obj {
			return
		}
	}
	boundOK := true
	ast.Inspect(be.Y, func(nd ast.Node) bool {
		switch t := nd.(type) {
		case *ast.Ident:
			if o, ok := f.info.Uses[t].(*types.Var); ok {
				for _, v := range bodyAssigned {
					if v == o {
						boundOK = false
					}
				}
				if o == obj {
					boundOK = false
				}
			}
		case *ast.CallExpr:
			if id, ok := t.Fun.(*ast.Ident); ok && (id.Name == "len" || id.Name == "cap") {
				if _, isB := f.info.Uses[id].(*types.Builtin); isB {
					return true
				}
			}
			if tv, ok := f.info.Types[t.Fun]; ok && tv.IsType() {
				return true
			}
			boundOK = false
		case *ast.SelectorExpr, *ast.IndexExpr, *ast.StarExpr:
			boundOK = false // heap-dependent bound
		}
		return true
	})
	if !boundOK {
		return
	}
	start, ok := st.vars[obj]
	if !ok || len(start.C) != 1 || !start.C[0].Sort.IsBV() {
		return
	}
	a := start.S()
	signed := isSigned(obj.Type())
	le, lt := "bvule", "bvult"
	if signed {
		le, lt = "bvsle", "bvslt"
	}
	L.autoInv = append(L.autoInv, func(s *State) *Term {
		cur, ok := s.vars[obj]
		if !ok {
			return TTrue
		}
		// bound evaluated in s (pure by the syntactic restriction above)
		c := x.c
		c.dry++
		bv := x.expr(f, s.clone(), be.Y)
		c.dry--
		bv = x.typed(bv, obj.Type())
		if len(bv.C) != 1 || bv.S().Sort != cur.S().Sort {
			return TTrue
		}
		hi := bv.S()
		if be.Op == token.LEQ {
			// i <= e: invariant i <= e+1 unless e+1 overflows; keep it simple: only lower bound
			return bvcmp(le, a, cur.S())
		}
		return And(bvcmp(le, a, cur.S()), Or(bvcmp(le, cur.S(), hi), bvcmp(lt, hi, a)))
	})
}

func (x *X) rangeStmt(f *Frame, st *State, n *ast.RangeStmt, label string) *State {
	rt := f.info.TypeOf(n.X)
	ord := f.loopOrd[n]
	switch u := rt.Underlying().(type) {
	case *types.Slice, *types.Array:
		coll := x.expr(f, st, n.X)
		x.flushWriteback(f, st)
		var ln *Term
		var elemT types.Type
		if sl, ok := u.(*types.Slice); ok {
			ln = coll.C[2]
			elemT = sl.Elem()
		} else {
			at := u.(*types.Array)
			ln = BVInt(at.Len(), 64)
			elemT = at.Elem()
		}
		ln = x.c.define("rlen", ln)
		hidden := types.NewVar(n.Pos(), f.pkg, fmt.Sprintf("$it%d", ord), tInt)
		st.vars[hidden] = scalar(tInt, BVInt(0, 64))
		keyObj := x.rangeVar(f, n.Key)
		valObj := x.rangeVar(f, n.Value)
		L := &loopDesc{node: n, ord: ord, label: label, body: n.Body, pos: n.Pos(), extra: []types.Object{hidden}}
		L.cond = func(s *State) *Term { return bvcmp("bvult", s.vars[hidden].S(), ln) }
		L.pre = func(s *State) {
			i := s.vars[hidden].S()
			if keyObj != nil {
				x.bindRangeVar(f, s, keyObj, n.Tok, scalar(tInt, i))
			}
			if valObj != nil {
				var ev Value
				if _, ok := u.(*types.Slice); ok {
					ev = x.c.loadElem(s, elemT, coll.C[0], bvbin("bvadd", coll.C[1], i))
				} else {
					ev = x.indexValue(s, coll, scalar(tInt, i), nil)
				}
				x.bindRangeVar(f, s, valObj, n.Tok, ev)
			}
		}
		L.post = func(s *State) *State {
			s.vars[hidden] = scalar(tInt, bvbin("bvadd", s.vars[hidden].S(), BVInt(1, 64)))
			return s
		}
		L.autoInv = append(L.autoInv, func(s *State) *Term { return bvcmp("bvule", s.vars[hidden].S(), ln) })
		L.names = map[string]func(*State) Value{
			fmt.Sprintf("it%d", ord): func(s *State) Value { return s.vars[hidden] },
			"it":                     func(s *State) Value { return s.vars[hidden] },
		}
		if keyObj != nil && n.Tok == token.ASSIGN {
			L.extra = append(L.extra, keyObj)
		}
		if valObj != nil && n.Tok == token.ASSIGN {
			L.extra = append(L.extra, valObj)
		}
		out := x.loop(f, st, L)
		return out
	case *types.Map:
		return x.rangeMap(f, st, n, label, u)
	}
	fail("range over %v unsupported at %s", rt, x.pos(n.Pos()))
	return nil
}

func (x *X) rangeVar(f *Frame, e ast.Expr) types.Object {
	if e == nil {
		return nil
	}
	id, ok := e.(*ast.Ident)
	if !ok {
		fail("range variable must be an identifier at %s", x.pos(e.Pos()))
	}
	if id.Name == "_" {
		return nil
	}
	if o := f.info.Defs[id]; o != nil {
		return o
	}
	return f.info.Uses[id]
}

func (x *X) bindRangeVar(f *Frame, s *State, obj types.Object, tok token.Token, v Value) {
	v = x.assignConv(s, x.typed(v, obj.Type()), obj.Type())
	if f.boxedVars[obj] && tok == token.DEFINE {
		r := x.c.newRef(s, "box_"+obj.Name())
		s.boxed[obj] = r
		x.c.storePtr(s, obj.Type(), r, Value{T: obj.Type(), C: v.C})
		return
	}
	x.writeVar(s, obj, v)
}

// rangeMap: iteration over a ghost duplicate-free key sequence of arbitrary order
// (snapshot of the key set at loop entry). seq : Array BV64 K, n = len(map) at entry.
func (x *X) rangeMap(f *Frame, st *State, n *ast.RangeStmt, label string, mt *types.Map) *State {
	c := x.c
	ord := f.loopOrd[n]
	m := x.expr(f, st, n.X)
	x.flushWriteback(f, st)
	_, has0, ksort := x.mapHeaps(st, m.T)
	dom0 := c.define("dom0", Select(has0, m.S()))
	cnt := c.define("mlen", x.lenOf(st, m).S())
	seq := c.fresh(fmt.Sprintf("seq%d", ord), SArr(SBV(64), ksort))
	// seq enumerates dom0 without repetition: injective on [0,n) and covering
	i1 := BoundVar("si", SBV(64))
	i2 := BoundVar("sj", SBV(64))
	c.assume(st.pc, Quant("forall", []*Term{i1}, Implies(bvcmp("bvult", i1, cnt), Select(dom0, Select(seq, i1))), []*Term{Select(seq, i1)}))
	c.assume(st.pc, Quant("forall", []*Term{i1, i2}, Implies(And(bvcmp("bvult", i1, cnt), bvcmp("bvult", i2, cnt), Not(Eq(i1, i2))),
		Not(Eq(Select(seq, i1), Select(seq, i2)))), []*Term{mk("$multi", SBool, Select(seq, i1), Select(seq, i2))}))
	// covering: every key of dom0 has an index (skolem function)
	idxOf := fmt.Sprintf("seqidx%d!%d", ord, c.symN)
	kb := BoundVar("sk", ksort)
	ix := c.uf(idxOf, SBV(64), kb)
	c.assume(st.pc, Quant("forall", []*Term{kb}, Implies(Select(dom0, kb), And(bvcmp("bvult", ix, cnt), Eq(Select(seq, ix), kb))), []*Term{ix}))
	c.assume(st.pc, bvcmp("bvule", cnt, sliceMax))
	hidden := types.NewVar(n.Pos(), f.pkg, fmt.Sprintf("$it%d", ord), tInt)
	st.vars[hidden] = scalar(tInt, BVInt(0, 64))
	keyObj := x.rangeVar(f, n.Key)
	valObj := x.rangeVar(f, n.Value)
	L := &loopDesc{node: n, ord: ord, label: label, body: n.Body, pos: n.Pos(), extra: []types.Object{hidden}}
	L.cond = func(s *State) *Term { return bvcmp("bvult", s.vars[hidden].S(), cnt) }
	// Entries deleted during iteration are skipped by Go; entries added may or may not be seen.
	// We model the common case: the body may delete only the current key or keys not yet needed;
	// a deleted, not-yet-visited key is skipped via an assumption on the current key being present.
	L.pre = func(s *State) {
		i := s.vars[hidden].S()
		k := Select(seq, i)
		if keyObj != nil {
			x.bindRangeVar(f, s, keyObj, n.Tok, scalar(mt.Key(), k))
		}
		if valObj != nil {
			_, val := x.mapLoad(s, m, k)
			x.wfValue(s, val) // values stored in maps are Go values (slice headers well formed)
			x.bindRangeVar(f, s, valObj, n.Tok, val)
		}
	}
	L.post = func(s *State) *State {
		s.vars[hidden] = scalar(tInt, bvbin("bvadd", s.vars[hidden].S(), BVInt(1, 64)))
		return s
	}
	L.autoInv = append(L.autoInv, func(s *State) *Term { return bvcmp("bvule", s.vars[hidden].S(), cnt) })
	seqT := x.arrSpecType(seq.Sort)
	domT := x.arrSpecType(dom0.Sort)
	L.names = map[string]func(*State) Value{
		fmt.Sprintf("it%d", ord):  func(s *State) Value { return s.vars[hidden] },
		"it":                      func(s *State) Value { return s.vars[hidden] },
		fmt.Sprintf("seq%d", ord): func(s *State) Value { return scalar(seqT, seq) },
		"seq":                     func(s *State) Value { return scalar(seqT, seq) },
		fmt.Sprintf("dom%d", ord): func(s *State) Value { return scalar(domT, dom0) },
		fmt.Sprintf("cnt%d", ord): func(s *State) Value { return scalar(tInt, cnt) },
		"cnt":                     func(s *State) Value { return scalar(tInt, cnt) },
	}
	c.assumption("map iteration visits a snapshot of the key set in arbitrary order; bodies that insert keys are not modelled")
	return x.loop(f, st, L)
}
