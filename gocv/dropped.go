package main

// Calls that are dropped or given a fixed trivial meaning (DESIGN 2.3 "Dropped, stated once"):
//   - logging (common/log.*, log.Print*): no effect, arguments not evaluated
//   - fmt.Errorf / errors.New / fmt.Sprintf / fmt.Sprint: the message text is not modelled; the
//     result is a fresh non-nil error (or a fresh string); arguments are not evaluated
//   - sync.Mutex / sync.RWMutex Lock/Unlock/RLock/RUnlock: no effect in a sequential proof
//     (methods are verified one call at a time; the representation invariant attached to the
//     type is what holds whenever the lock is free)

import (
	"go/ast"
	"go/types"
	"strings"
)

func (x *X) droppedCall(f *Frame, st *State, fn *types.Func, sig *types.Signature, call *ast.CallExpr) ([]Value, bool) {
	full := fn.FullName()
	pkg := ""
	if fn.Pkg() != nil {
		pkg = fn.Pkg().Path()
	}
	switch {
	case pkg == "github.com/polynetwork/poly/common/log" || (pkg == "log" && strings.HasPrefix(fn.Name(), "Print")):
		x.c.assumption("log.* calls are dropped (no effect on verified state)")
		return x.freshResults(st, sig, "log"), true
	case full == "fmt.Errorf" || full == "errors.New" ||
		(pkg == "github.com/pkg/errors" && (fn.Name() == "Errorf" || fn.Name() == "New")):
		x.c.assumption("fmt.Errorf/errors.New return a fresh non-nil error; message text is not modelled")
		e := x.c.fresh("err", SRef)
		x.c.assume(st.pc, Not(Eq(e, BVInt(0, 64))))
		return []Value{scalar(sig.Results().At(0).Type(), e)}, true
	case full == "fmt.Sprintf" || full == "fmt.Sprint" || full == "fmt.Sprintln":
		x.c.assumption("fmt.Sprintf result text is not modelled (fresh string)")
		return []Value{scalar(tString, x.c.fresh("str", SStr))}, true
	case full == "fmt.Println" || full == "fmt.Printf" || full == "fmt.Print":
		return x.freshResults(st, sig, "fmt"), true
	case strings.HasPrefix(full, "(*sync.Mutex).") || strings.HasPrefix(full, "(*sync.RWMutex)."):
		switch fn.Name() {
		case "Lock", "Unlock", "RLock", "RUnlock":
			x.c.assumption("sync.Mutex operations are no-ops in the sequential proof of one method; interleavings finer than a whole method call are not modelled")
			return nil, true
		}
	}
	return nil, false
}

func (x *X) freshResults(st *State, sig *types.Signature, hint string) []Value {
	var vals []Value
	for i := 0; i < sig.Results().Len(); i++ {
		vals = append(vals, x.c.freshValue(hint, sig.Results().At(i).Type()))
	}
	return vals
}
