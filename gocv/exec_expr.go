package main

import (
	"bytes"
	"fmt"
	"go/ast"
	"go/constant"
	"go/printer"
	"go/token"
	"go/types"
	"math/big"
	"strings"
)

// X executes function bodies symbolically.
type X struct {
	c        *Ctx
	prog     *Program
	qn       int
	revealed map[string]bool // opaque spec functions expanded in this function
	argStatic []types.Type  // static types of the current call's argument expressions
	implCache map[string][]types.Type // interface type -> named types implementing it
}

type Target struct {
	label  string
	isLoop bool
	breaks []*State
	conts  []*State
}

type Frame struct {
	fi        *FuncInfo
	info      *types.Info
	pkg       *types.Package
	spec      *FuncSpec
	old       *State
	rets      []*State
	retVals   [][]Value
	results   []*types.Var
	targets   []*Target
	defers    []*ast.DeferStmt
	loopOrd   map[ast.Node]int
	callOrd   map[*ast.CallExpr]int
	makeOrd   map[*ast.CallExpr]int
	boxedVars map[types.Object]bool
	ghostVars map[string]*types.Var
	depth     int
	stmtText  map[ast.Stmt]string
	writeback []func(st *State)
	top       bool
	curPos    token.Pos
	entryNames map[string]Value
	dryGhostSets map[string]bool // ghost variables assigned during loop dry runs
	callDepth int
	snaps     map[string]*State // named state snapshots (`snapshot NAME ...`), read by at(NAME, expr)
	activeLoops []*loopDesc     // loops whose body is being executed (innermost last)
}

func (f *Frame) lookupLocal(name string, pos token.Pos) types.Object {
	if f.fi == nil || pos == token.NoPos {
		return nil
	}
	sc := f.fi.Pkg.Types.Scope().Innermost(pos)
	if sc == nil {
		return nil
	}
	_, obj := sc.LookupParent(name, pos)
	if v, ok := obj.(*types.Var); ok && !v.IsField() && v.Parent() != f.fi.Pkg.Types.Scope() && v.Parent() != types.Universe {
		return v
	}
	return nil
}

func newBig(k constant.Value) (*big.Int, bool) {
	ik := constant.ToInt(k)
	if ik.Kind() != constant.Int {
		return nil, false
	}
	return new(big.Int).SetString(ik.ExactString(), 10)
}

func (x *X) pos(p token.Pos) token.Position { return x.prog.fset.Position(p) }

func nodeText(fset *token.FileSet, n ast.Node) string {
	var buf bytes.Buffer
	printer.Fprint(&buf, fset, n)
	return normStmt(buf.String())
}

// panicCheck: in precise mode an obligation, in abstract mode an assumption.
func (x *X) panicCheck(st *State, kind string, cond *Term, pos token.Pos, detail string) {
	if cond.isTrue() {
		return
	}
	if x.c.nopanic {
		x.c.oblige("nopanic:"+kind, st.pc, cond, x.pos(pos), detail)
	}
	// execution continues only when no panic happened
	st.pc = x.c.define("pc", And(st.pc, cond))
}

// readVar reads a local variable.
func (x *X) readVar(st *State, obj types.Object) (Value, bool) {
	if ref, ok := st.boxed[obj]; ok {
		return x.c.loadPtr(st, obj.Type(), ref), true
	}
	v, ok := st.vars[obj]
	return v, ok
}

func (x *X) writeVar(st *State, obj types.Object, v Value) {
	if ref, ok := st.boxed[obj]; ok {
		x.c.storePtr(st, obj.Type(), ref, Value{T: obj.Type(), C: v.C})
		return
	}
	st.vars[obj] = Value{T: obj.Type(), C: v.C}
}

func globalName(o *types.Var) string { return "G!" + o.Pkg().Path() + "." + o.Name() }

func (x *X) readGlobal(st *State, o *types.Var) Value {
	if b, ok := o.Type().Underlying().(*types.Basic); ok && b.Info()&(types.IsString|types.IsInteger) != 0 {
		if k, ok := x.prog.globalInit(o); ok {
			x.c.assumption("package-level variables initialised with a literal (key prefixes, method names) are never reassigned")
			return constValue(k, o.Type())
		}
	}
	l := layoutOf(o.Type())
	v := Value{T: o.Type(), C: make([]*Term, len(l.Comps))}
	for i, comp := range l.Comps {
		v.C[i] = x.c.heap(st, globalName(o)+comp.Path, comp.Sort)
	}
	if isErrorType(o.Type()) && (strings.HasPrefix(o.Name(), "Err") || strings.HasPrefix(o.Name(), "ERR") || o.Name() == "EOF" ||
		(len(o.Name()) > 3 && strings.HasPrefix(o.Name(), "err") && o.Name()[3] >= 'A' && o.Name()[3] <= 'Z')) {
		// sentinel errors are initialised once with errors.New and never reassigned
		x.c.assumption("package-level sentinel errors (ErrX, io.EOF) are non-nil")
		x.c.assume(TTrue, Not(Eq(v.C[0], BVInt(0, 64))))
	}
	return v
}

func (x *X) writeGlobal(st *State, o *types.Var, v Value) {
	l := layoutOf(o.Type())
	for i, comp := range l.Comps {
		x.c.setHeap(st, globalName(o)+comp.Path, v.C[i], nil)
	}
}

// typed: make sure a value has concrete terms of type t (coercing untyped constants / nil)
func (x *X) typed(v Value, t types.Type) Value {
	if isNilConst(v) {
		return zeroValue(t)
	}
	if v.C == nil && v.K != nil {
		if _, ok := t.Underlying().(*types.Interface); ok {
			t = defaultConstType(v.K)
		}
		return constValue(v.K, t)
	}
	return v
}

func (x *X) exprTyped(f *Frame, st *State, e ast.Expr, t types.Type) Value {
	v := x.expr(f, st, e)
	v = x.typed(v, t)
	return x.assignConv(st, v, t)
}

// assignConv: implicit conversion on assignment (concrete -> interface).
func (x *X) assignConv(st *State, v Value, t types.Type) Value {
	if t == nil || v.T == nil {
		return v
	}
	if _, isIface := t.Underlying().(*types.Interface); isIface {
		if _, srcIface := v.T.Underlying().(*types.Interface); !srcIface {
			return x.toInterface(st, v, t)
		}
		return Value{T: t, C: v.C}
	}
	return v
}

func (x *X) toInterface(st *State, v Value, t types.Type) Value {
	if isNilConst(v) {
		return zeroValue(t)
	}
	if v.C == nil && v.K != nil {
		v = constValue(v.K, defaultConstType(v.K))
	}
	if _, ok := v.T.Underlying().(*types.Pointer); ok {
		// pointer keeps its ref; tag its dynamic type when non-nil
		r := v.S()
		x.c.assume(st.pc, Implies(Not(Eq(r, BVInt(0, 64))), Eq(App("dyntype", SInt, r), Lit(fmt.Sprint(x.prog.typeID(v.T)), SInt))))
		return Value{T: t, C: []*Term{r}}
	}
	// non-pointer dynamic value: box it
	r := x.c.newRef(st, "ibox")
	x.c.storePtr(st, v.T, r, v)
	x.c.assume(st.pc, Eq(App("dyntype", SInt, r), Lit(fmt.Sprint(x.prog.typeID(v.T)), SInt)))
	return Value{T: t, C: []*Term{r}}
}

func (x *X) convert(st *State, v Value, t types.Type) Value {
	if isNilConst(v) {
		return zeroValue(t)
	}
	// string <-> []byte
	if v.T != nil {
		if _, ok := t.Underlying().(*types.Interface); ok {
			return x.assignConv(st, x.typed(v, t), t)
		}
		if sl, ok := t.Underlying().(*types.Slice); ok {
			if b, ok := v.T.Underlying().(*types.Basic); ok && b.Info()&types.IsString != 0 {
				if eb, ok := sl.Elem().Underlying().(*types.Basic); ok && eb.Kind() == types.Uint8 {
					if v.C == nil {
						v = constValue(v.K, tString)
					}
					return x.bytesFromString(st, v, t)
				}
			}
		}
		if b, ok := t.Underlying().(*types.Basic); ok && b.Info()&types.IsString != 0 {
			if sl, ok := v.T.Underlying().(*types.Slice); ok {
				if eb, ok := sl.Elem().Underlying().(*types.Basic); ok && eb.Kind() == types.Uint8 {
					res := App("str_of_bytes", SStr, x.bytesOfValue(st, v).S())
					if len(v.C) == 4 {
						// string(b) has the length of b
						x.c.assume(st.pc, Eq(App("str_len", SBV(64), res), v.C[2]))
					}
					return scalar(t, res)
				}
			}
		}
	}
	return convertValue(v, t)
}

// []byte(s): fresh backing array holding the string's bytes
func (x *X) bytesFromString(st *State, s Value, t types.Type) Value {
	r := x.c.newRef(st, "sb")
	x.c.setInnerArr(st, tUint8, 0, r, App("str_arr", SArr(SBV(64), SBV(8)), s.S()))
	n := App("str_len", SBV(64), s.S())
	x.c.assume(st.pc, bvcmp("bvule", n, sliceMax))
	// abstract content of the fresh slice is the string's byte content
	x.c.assume(st.pc, Eq(App("bytes_of", SBytes, App("str_arr", SArr(SBV(64), SBV(8)), s.S()), BVInt(0, 64), n), App("bytes_of_str", SBytes, s.S())))
	return mkSlice(t, r, BVInt(0, 64), n, n)
}

var sliceMax = Lit("#x000000ffffffffff", SBV(64)) // standing assumption: no slice longer than 2^40

// bytesOfValue: abstract content (sort Bytes) of a []byte, [N]byte or string value
func (x *X) bytesOfValue(st *State, v Value) Value {
	bt := specType("Bytes")
	if v.C == nil && v.K != nil {
		v = constValue(v.K, tString)
	}
	if len(v.C) == 1 && v.C[0].Sort == SBytes {
		return v
	}
	if len(v.C) == 1 && v.C[0].Sort == SStr {
		return scalar(bt, App("bytes_of_str", SBytes, v.C[0]))
	}
	if n, ok := byteArrayLen(v.T); ok {
		return scalar(bt, x.c.uf(fmt.Sprintf("bytes_of_arr%d", n), SBytes, v.S()))
	}
	if len(v.C) == 4 {
		ref, off, ln, _ := sliceParts(v)
		inner := x.c.innerArr(st, tUint8, 0, ref)
		return scalar(bt, App("bytes_of", SBytes, inner, off, ln))
	}
	fail("bytes(): unsupported operand %v", v.T)
	return Value{}
}

func (x *X) lenOf(st *State, v Value) Value {
	if v.C == nil && v.K != nil && v.K.Kind() == constant.String {
		return constValue(constant.MakeInt64(int64(len(constant.StringVal(v.K)))), tInt)
	}
	switch u := v.T.Underlying().(type) {
	case *types.Slice:
		return scalar(tInt, v.C[2])
	case *types.Array:
		return constValue(constant.MakeInt64(u.Len()), tInt)
	case *types.Basic:
		if u.Info()&types.IsString != 0 {
			return scalar(tInt, App("str_len", SBV(64), v.S()))
		}
	case *types.Map:
		ln := Select(x.c.heap(st, "M!"+typeKey(v.T)+"!len", SArr(SRef, SBV(64))), v.S())
		if !ln.Bound {
			// type invariant of Go maps: 0 <= len (and below the standing size bound)
			x.c.assume(TTrue, bvcmp("bvule", ln, sliceMax))
		}
		return scalar(tInt, ln)
	case *types.Pointer:
		if a, ok := u.Elem().Underlying().(*types.Array); ok {
			return constValue(constant.MakeInt64(a.Len()), tInt)
		}
	}
	if name, ok := isSpecType(v.T); ok && name == "Bytes" {
		return scalar(tInt, App("blen", SBV(64), v.S()))
	}
	fail("len() of %v unsupported", v.T)
	return Value{}
}

// selectField: v.name with automatic dereference of pointers.
func (x *X) selectField(st *State, v Value, name string) Value {
	if pt, ok := v.T.Underlying().(*types.Pointer); ok {
		lo, hi, ft, ok := fieldRange(pt.Elem(), name)
		if !ok {
			// embedded promotion: search one level
			if pv, ok2 := x.promoted(st, v, name); ok2 {
				return pv
			}
			fail("no field %s in %v", name, pt.Elem())
		}
		return x.c.loadPtrRange(st, pt.Elem(), v.S(), lo, hi, ft)
	}
	if _, _, _, ok := fieldRange(v.T, name); !ok {
		if pv, ok2 := x.promoted(st, v, name); ok2 {
			return pv
		}
	}
	return fieldOf(v, name)
}

func (x *X) promoted(st *State, v Value, name string) (Value, bool) {
	bt := v.T
	if pt, ok := v.T.Underlying().(*types.Pointer); ok {
		bt = pt.Elem()
	}
	s, ok := bt.Underlying().(*types.Struct)
	if !ok {
		return Value{}, false
	}
	for i := 0; i < s.NumFields(); i++ {
		f := s.Field(i)
		if !f.Embedded() {
			continue
		}
		inner := x.selectField(st, v, f.Name())
		it := inner.T
		if pt, ok := it.Underlying().(*types.Pointer); ok {
			it = pt.Elem()
		}
		if _, _, _, ok := fieldRange(it, name); ok {
			return x.selectField(st, inner, name), true
		}
	}
	return Value{}, false
}

// indexValue: base[idx]; check (may be nil) receives the in-bounds condition.
func (x *X) indexValue(st *State, base, idx Value, check func(*Term)) Value {
	if name, ok := isSpecType(base.T); ok {
		s := base.S().Sort
		if s.IsArr() {
			k, v := s.ArrParts()
			it := x.coerceToSort(idx, k)
			r := Select(base.S(), it)
			return scalar(x.specTypeOfSort(v), r)
		}
		if name == "Bytes" {
			it := x.coerceToSort(idx, SBV(64))
			return scalar(tUint8, App("bat", SBV(8), base.S(), it))
		}
	}
	switch u := base.T.Underlying().(type) {
	case *types.Slice:
		ref, off, ln, _ := sliceParts(base)
		i := x.indexTerm(idx)
		if check != nil {
			check(x.inBounds(idx, i, ln))
		}
		return x.c.loadElem(st, u.Elem(), ref, bvbin("bvadd", off, i))
	case *types.Array:
		i := x.indexTerm(idx)
		n := BVInt(u.Len(), 64)
		if check != nil {
			check(x.inBounds(idx, i, n))
		}
		if bl, ok := byteArrayLen(base.T); ok {
			return scalar(u.Elem(), packedByteSym(base.S(), bl, i))
		}
		el := layoutOf(u.Elem())
		out := Value{T: u.Elem(), C: make([]*Term, len(el.Comps))}
		for k := range el.Comps {
			out.C[k] = Select(base.C[k], i)
		}
		return out
	case *types.Pointer:
		if _, ok := u.Elem().Underlying().(*types.Array); ok {
			arr := x.c.loadPtr(st, u.Elem(), base.S())
			return x.indexValue(st, arr, idx, check)
		}
	case *types.Map:
		k := x.typed(idx, u.Key())
		k = x.assignConv(st, k, u.Key())
		kt := x.mapKeyTerm(k)
		has, val := x.mapLoad(st, base, kt)
		if !kt.Bound && !base.S().Bound {
			// values stored in maps are Go values: slice headers well formed, references allocated
			x.wfValue(st, val)
		}
		iv := iteValue(has, val, zeroValue(u.Elem()))
		// a ground look-up gets a name: an `ite` inside a larger term keeps that term from serving as a
		// quantifier pattern (solvers reject patterns with ite), and the look-up is repeated verbatim
		for i, ct := range iv.C {
			if ct != nil && !ct.Bound && ct.Op == "ite" {
				iv.C[i] = x.c.abbreviate("mg", ct)
			}
		}
		return iv
	case *types.Basic:
		if u.Info()&types.IsString != 0 {
			if base.C == nil {
				base = constValue(base.K, tString)
			}
			i := x.indexTerm(idx)
			if check != nil {
				check(x.inBounds(idx, i, App("str_len", SBV(64), base.S())))
			}
			return scalar(tUint8, Select(App("str_arr", SArr(SBV(64), SBV(8)), base.S()), i))
		}
	}
	fail("index of %v unsupported", base.T)
	return Value{}
}

func (x *X) specTypeOfSort(s Sort) types.Type {
	switch {
	case s == SBool:
		return tBool
	case s == SBV(8):
		return tUint8
	case s == SBV(16):
		return types.Typ[types.Uint16]
	case s == SBV(32):
		return types.Typ[types.Uint32]
	case s == SBV(64):
		return tUint64
	case s == SBytes:
		return specType("Bytes")
	case s == SInt:
		return specType("Int")
	case s == "OptBytes":
		return specType("OptBytes")
	case s == "KeyT":
		return specType("KeyT")
	case s == SStr:
		return tString
	case s.IsBV() && s.BVWidth()%8 == 0:
		return types.NewArray(tUint8, int64(s.BVWidth()/8))
	}
	return x.arrSpecType(s)
}

// indexTerm: index value as BV64 (sign-extended for signed types)
func (x *X) indexTerm(idx Value) *Term {
	if idx.C == nil && idx.K != nil {
		bi, _ := newBig(idx.K)
		return BVLit(bi, 64)
	}
	return Resize(idx.S(), 64, isSigned(idx.T))
}

func (x *X) inBounds(idx Value, i, n *Term) *Term {
	// after sign extension a negative index is a huge unsigned number, so one unsigned test suffices
	return bvcmp("bvult", i, n)
}

// sliceValue: base[lo:hi]
func (x *X) sliceValue(st *State, base Value, lo, hi, max *Value, check func(*Term)) Value {
	var ref, off, ln, cp *Term
	var rt types.Type
	switch u := base.T.Underlying().(type) {
	case *types.Slice:
		ref, off, ln, cp = sliceParts(base)
		rt = base.T
	case *types.Basic:
		if u.Info()&types.IsString != 0 {
			fail("string slicing unsupported")
		}
	default:
		fail("slice of %v unsupported here", base.T)
	}
	l := BVInt(0, 64)
	if lo != nil {
		l = x.indexTerm(*lo)
	}
	h := ln
	if hi != nil {
		h = x.indexTerm(*hi)
	}
	if check != nil {
		check(And(bvcmp("bvule", l, h), bvcmp("bvule", h, cp)))
	}
	ncap := bvbin("bvsub", cp, l)
	if max != nil {
		m := x.indexTerm(*max)
		if check != nil {
			check(And(bvcmp("bvule", h, m), bvcmp("bvule", m, cp)))
		}
		ncap = bvbin("bvsub", m, l)
	}
	// Go: slicing a nil slice [0:0] stays nil; ref unchanged handles that.
	return mkSlice(rt, ref, bvbin("bvadd", off, l), bvbin("bvsub", h, l), ncap)
}

// ---------------------------------------------------------------------------------------
// maps: M!<type>!has : Array Ref (Array K Bool), M!<type>!val<comp>, M!<type>!len

func (x *X) mapKeyTerm(k Value) *Term {
	if len(k.C) != 1 {
		fail("map key type %v must be a single component", k.T)
	}
	return k.C[0]
}

func (x *X) mapHeaps(st *State, mt types.Type) (hasName string, has *Term, ksort Sort) {
	u := mt.Underlying().(*types.Map)
	kl := layoutOf(u.Key())
	if len(kl.Comps) != 1 {
		fail("map key type %v unsupported", u.Key())
	}
	ksort = kl.Comps[0].Sort
	hasName = "M!" + typeKey(mt) + "!has"
	has = x.c.heap(st, hasName, SArr(SRef, SArr(ksort, SBool)))
	return
}

func (x *X) mapLoad(st *State, m Value, k *Term) (*Term, Value) {
	u := m.T.Underlying().(*types.Map)
	_, has, ksort := x.mapHeaps(st, m.T)
	h := Select(Select(has, m.S()), k)
	vl := layoutOf(u.Elem())
	out := Value{T: u.Elem(), C: make([]*Term, len(vl.Comps))}
	for i, comp := range vl.Comps {
		vh := x.c.heap(st, "M!"+typeKey(m.T)+"!val"+comp.Path, SArr(SRef, SArr(ksort, comp.Sort)))
		out.C[i] = Select(Select(vh, m.S()), k)
	}
	return h, out
}

func (x *X) mapStore(st *State, m Value, k *Term, v Value) {
	u := m.T.Underlying().(*types.Map)
	hasName, has, ksort := x.mapHeaps(st, m.T)
	ref := m.S()
	inner := Select(has, ref)
	was := Select(inner, k)
	x.c.setHeap(st, hasName, x.c.define("mh", Store(has, ref, Store(inner, k, TTrue))), ref)
	vl := layoutOf(u.Elem())
	for i, comp := range vl.Comps {
		name := "M!" + typeKey(m.T) + "!val" + comp.Path
		vh := x.c.heap(st, name, SArr(SRef, SArr(ksort, comp.Sort)))
		x.c.setHeap(st, name, x.c.define("mv", Store(vh, ref, Store(Select(vh, ref), k, v.C[i]))), ref)
	}
	ln := "M!" + typeKey(m.T) + "!len"
	lh := x.c.heap(st, ln, SArr(SRef, SBV(64)))
	old := Select(lh, ref)
	x.c.setHeap(st, ln, x.c.define("ml", Store(lh, ref, Ite(was, old, bvbin("bvadd", old, BVInt(1, 64))))), ref)
}

func (x *X) mapDelete(st *State, m Value, k *Term) {
	hasName, has, _ := x.mapHeaps(st, m.T)
	ref := m.S()
	inner := Select(has, ref)
	was := Select(inner, k)
	x.c.setHeap(st, hasName, x.c.define("mh", Store(has, ref, Store(inner, k, TFalse))), ref)
	ln := "M!" + typeKey(m.T) + "!len"
	lh := x.c.heap(st, ln, SArr(SRef, SBV(64)))
	old := Select(lh, ref)
	x.c.setHeap(st, ln, x.c.define("ml", Store(lh, ref, Ite(was, bvbin("bvsub", old, BVInt(1, 64)), old))), ref)
}

func (x *X) newMap(st *State, mt types.Type) Value {
	r := x.c.newRef(st, "map")
	hasName, has, ksort := x.mapHeaps(st, mt)
	x.c.setHeap(st, hasName, Store(has, r, ConstArr(SArr(ksort, SBool), TFalse)), r)
	ln := "M!" + typeKey(mt) + "!len"
	lh := x.c.heap(st, ln, SArr(SRef, SBV(64)))
	x.c.setHeap(st, ln, Store(lh, r, BVInt(0, 64)), r)
	return scalar(mt, r)
}

// ---------------------------------------------------------------------------------------
// code expressions

func (x *X) expr(f *Frame, st *State, e ast.Expr) Value {
	if tv, ok := f.info.Types[e]; ok && tv.Value != nil {
		if isUntyped(Value{T: tv.Type}) {
			return Value{T: tv.Type, K: tv.Value}
		}
		if _, ok := tv.Type.Underlying().(*types.Basic); ok {
			return constValue(tv.Value, tv.Type)
		}
	}
	switch n := e.(type) {
	case *ast.ParenExpr:
		return x.expr(f, st, n.X)
	case *ast.Ident:
		return x.ident(f, st, n)
	case *ast.BasicLit:
		fail("non-constant literal?")
	case *ast.UnaryExpr:
		return x.unary(f, st, n)
	case *ast.BinaryExpr:
		return x.binary(f, st, n)
	case *ast.StarExpr:
		p := x.expr(f, st, n.X)
		pt := p.T.Underlying().(*types.Pointer)
		x.panicCheck(st, "nil", Not(Eq(p.S(), BVInt(0, 64))), n.Pos(), "nil dereference")
		return x.c.loadPtr(st, pt.Elem(), p.S())
	case *ast.SelectorExpr:
		return x.selector(f, st, n)
	case *ast.IndexExpr:
		if tv, ok := f.info.Types[n.X]; ok {
			if _, isSig := tv.Type.(*types.Signature); isSig {
				fail("generic instantiation unsupported")
			}
		}
		base := x.expr(f, st, n.X)
		idx := x.expr(f, st, n.Index)
		return x.indexValue(st, base, idx, func(c *Term) { x.panicCheck(st, "index", c, n.Pos(), nodeText(x.prog.fset, n)) })
	case *ast.SliceExpr:
		return x.sliceExpr(f, st, n)
	case *ast.CallExpr:
		rs := x.call(f, st, n)
		if len(rs) != 1 {
			fail("call used as single value returns %d values", len(rs))
		}
		return rs[0]
	case *ast.CompositeLit:
		return x.compositeLit(f, st, n)
	case *ast.TypeAssertExpr:
		v, ok := x.typeAssert(f, st, n)
		x.panicCheck(st, "assert", ok, n.Pos(), "type assertion")
		return v
	case *ast.FuncLit:
		// opaque function value
		r := x.c.newRef(st, "closure")
		return scalar(f.info.TypeOf(n), r)
	}
	fail("unsupported expression %T at %s", e, x.pos(e.Pos()))
	return Value{}
}

func (x *X) ident(f *Frame, st *State, id *ast.Ident) Value {
	obj := f.info.Uses[id]
	if obj == nil {
		obj = f.info.Defs[id]
	}
	switch o := obj.(type) {
	case *types.Nil:
		return Value{T: types.Typ[types.UntypedNil]}
	case *types.Const:
		if isUntyped(Value{T: o.Type()}) {
			return Value{T: o.Type(), K: o.Val()}
		}
		return constValue(o.Val(), o.Type())
	case *types.Var:
		if o.Pkg() != nil && o.Parent() == o.Pkg().Scope() {
			return x.readGlobal(st, o)
		}
		if v, ok := x.readVar(st, o); ok {
			return v
		}
		fail("variable %s has no value at %s", id.Name, x.pos(id.Pos()))
	case *types.Func:
		// function value (not called): opaque
		return scalar(o.Type(), x.c.uf("funcval!"+o.FullName(), SRef))
	}
	if id.Name == "nil" {
		return Value{T: types.Typ[types.UntypedNil]}
	}
	fail("unsupported identifier %s at %s", id.Name, x.pos(id.Pos()))
	return Value{}
}

func (x *X) unary(f *Frame, st *State, n *ast.UnaryExpr) Value {
	switch n.Op {
	case token.AND:
		return x.addrOf(f, st, n)
	case token.ARROW:
		if !x.c.abstract {
			fail("channel receive unsupported")
		}
		// abstract mode: the received value is arbitrary; blocking and the sender side are not modelled
		x.c.assumption("channel receive yields an arbitrary value of the element type; blocking is not modelled")
		x.expr(f, st, n.X)
		if t := f.info.TypeOf(n); t != nil {
			if tup, ok := t.(*types.Tuple); ok {
				t = tup.At(0).Type()
			}
			return x.c.freshValue("recv", t)
		}
		return Value{}
	}
	v := x.expr(f, st, n.X)
	if v.C == nil && v.K != nil {
		v = constValue(v.K, f.info.TypeOf(n.X))
	}
	r := unop(n.Op, v)
	return r
}

func (x *X) addrOf(f *Frame, st *State, n *ast.UnaryExpr) Value {
	pt := f.info.TypeOf(n)
	switch t := n.X.(type) {
	case *ast.CompositeLit:
		v := x.compositeLit(f, st, t)
		r := x.c.newRef(st, "new")
		x.c.storePtr(st, v.T, r, v)
		return scalar(pt, r)
	case *ast.Ident:
		obj := f.info.Uses[t]
		if ref, ok := st.boxed[obj]; ok {
			return scalar(pt, ref)
		}
		if gv, ok := obj.(*types.Var); ok && gv.Pkg() != nil && gv.Parent() == gv.Pkg().Scope() {
			// address of a package-level variable: stable pseudo reference
			return scalar(pt, x.c.uf("addrof!"+globalName(gv), SRef))
		}
	case *ast.ParenExpr:
		return x.addrOf(f, st, &ast.UnaryExpr{Op: token.AND, X: t.X, OpPos: n.OpPos})
	}
	fail("unsupported address-of %s at %s", nodeText(x.prog.fset, n), x.pos(n.Pos()))
	return Value{}
}

func (x *X) binary(f *Frame, st *State, n *ast.BinaryExpr) Value {
	if n.Op == token.LAND || n.Op == token.LOR {
		a := x.exprTyped(f, st, n.X, tBool)
		// evaluate RHS under the condition that it is evaluated at all
		guard := a.S()
		if n.Op == token.LOR {
			guard = Not(guard)
		}
		if guard.isFalse() {
			return a
		}
		sub := st.clone()
		sub.pc = x.c.define("pc", And(st.pc, guard))
		b := x.exprTyped(f, sub, n.Y, tBool)
		// merge side effects of RHS evaluation
		skipped := st.clone()
		skipped.pc = x.c.define("pc", And(st.pc, Not(guard)))
		// sub.pc may have been strengthened by panic assumptions
		m := x.c.mergeStates(sub, skipped)
		*st = *m
		if n.Op == token.LAND {
			return boolVal(And(a.S(), b.S()))
		}
		return boolVal(Or(a.S(), b.S()))
	}
	a := x.expr(f, st, n.X)
	b := x.expr(f, st, n.Y)
	ta, tb := f.info.TypeOf(n.X), f.info.TypeOf(n.Y)
	if isNilConst(a) && !isNilConst(b) {
		a = zeroValue(b.T)
	} else if isNilConst(b) && !isNilConst(a) {
		b = zeroValue(a.T)
	}
	if n.Op != token.SHL && n.Op != token.SHR {
		if a.C == nil && a.K != nil && ta != nil && !isUntyped(Value{T: ta}) {
			a = x.typed(a, ta)
		}
		if b.C == nil && b.K != nil && tb != nil && !isUntyped(Value{T: tb}) {
			b = x.typed(b, tb)
		}
		// interface vs concrete comparison
		if n.Op == token.EQL || n.Op == token.NEQ {
			if a.T != nil && b.T != nil {
				_, ai := a.T.Underlying().(*types.Interface)
				_, bi := b.T.Underlying().(*types.Interface)
				if ai && !bi {
					b = x.toInterface(st, b, a.T)
				} else if bi && !ai {
					a = x.toInterface(st, a, b.T)
				}
			}
		}
	} else {
		if a.C == nil && a.K != nil {
			a = x.typed(a, f.info.TypeOf(n))
		}
	}
	r := binop(n.Op, a, b, func(c *Term) { x.panicCheck(st, "div", c, n.Pos(), "division by zero") })
	if r.C == nil && r.K != nil {
		if t := f.info.TypeOf(n); t != nil && !isUntyped(Value{T: t}) {
			return x.typed(r, t)
		}
	}
	if rt := f.info.TypeOf(n); rt != nil && len(r.C) == 1 && !isUntyped(Value{T: rt}) {
		r.T = rt
	}
	return r
}

func (x *X) selector(f *Frame, st *State, n *ast.SelectorExpr) Value {
	if sel, ok := f.info.Selections[n]; ok {
		switch sel.Kind() {
		case types.FieldVal:
			base := x.expr(f, st, n.X)
			return x.walkFieldPath(st, base, sel.Index(), n.Pos())
		case types.MethodVal:
			// bound method value: opaque
			return scalar(sel.Type(), x.c.newRef(st, "methodval"))
		}
		fail("unsupported selection kind at %s", x.pos(n.Pos()))
	}
	// qualified identifier
	obj := f.info.Uses[n.Sel]
	switch o := obj.(type) {
	case *types.Const:
		if isUntyped(Value{T: o.Type()}) {
			return Value{T: o.Type(), K: o.Val()}
		}
		return constValue(o.Val(), o.Type())
	case *types.Var:
		return x.readGlobal(st, o)
	case *types.Func:
		return scalar(o.Type(), x.c.uf("funcval!"+o.FullName(), SRef))
	}
	fail("unsupported selector %s at %s", nodeText(x.prog.fset, n), x.pos(n.Pos()))
	return Value{}
}

// walkFieldPath follows a go/types selection index path (embedded fields included).
func (x *X) walkFieldPath(st *State, base Value, path []int, pos token.Pos) Value {
	cur := base
	for _, fi := range path {
		var stT types.Type
		isPtr := false
		if pt, ok := cur.T.Underlying().(*types.Pointer); ok {
			stT = pt.Elem()
			isPtr = true
		} else {
			stT = cur.T
		}
		su, ok := stT.Underlying().(*types.Struct)
		if !ok {
			fail("field path through non-struct %v", stT)
		}
		fld := su.Field(fi)
		lo, hi, ft, _ := fieldRange(stT, fld.Name())
		if isPtr {
			x.panicCheck(st, "nil", Not(Eq(cur.S(), BVInt(0, 64))), pos, "nil dereference (field "+fld.Name()+")")
			cur = x.c.loadPtrRange(st, stT, cur.S(), lo, hi, ft)
		} else {
			cur = Value{T: ft, C: cur.C[lo:hi]}
		}
	}
	return cur
}

func (x *X) sliceExpr(f *Frame, st *State, n *ast.SliceExpr) Value {
	bt := f.info.TypeOf(n.X)
	var lo, hi, max *Value
	ev := func(e ast.Expr) *Value {
		if e == nil {
			return nil
		}
		v := x.expr(f, st, e)
		return &v
	}
	chk := func(c *Term) { x.panicCheck(st, "slice", c, n.Pos(), nodeText(x.prog.fset, n)) }
	// array (or pointer to array) operand: materialise a temporary backing store
	var arrT *types.Array
	if a, ok := bt.Underlying().(*types.Array); ok {
		arrT = a
	} else if p, ok := bt.Underlying().(*types.Pointer); ok {
		if a, ok := p.Elem().Underlying().(*types.Array); ok {
			arrT = a
		}
	}
	if arrT != nil {
		arr := x.expr(f, st, n.X)
		if _, ok := arr.T.Underlying().(*types.Pointer); ok {
			arr = x.c.loadPtr(st, arr.T.Underlying().(*types.Pointer).Elem(), arr.S())
		}
		sl := x.materializeArray(st, arr, arrT)
		// write back after the enclosing call (copy-in/copy-out; assumes the alias does not escape)
		target := n.X
		f.writeback = append(f.writeback, func(st2 *State) {
			nv := x.readBackArray(st2, sl, arrT, arr.T)
			if x.isAssignable(f, target) {
				x.assign(f, st2, target, nv)
			}
		})
		lo, hi, max = ev(n.Low), ev(n.High), ev(n.Max)
		return x.sliceValue(st, sl, lo, hi, max, chk)
	}
	base := x.expr(f, st, n.X)
	if b, ok := base.T.Underlying().(*types.Basic); ok && b.Info()&types.IsString != 0 {
		fail("string slicing unsupported at %s", x.pos(n.Pos()))
	}
	lo, hi, max = ev(n.Low), ev(n.High), ev(n.Max)
	return x.sliceValue(st, base, lo, hi, max, chk)
}

func (x *X) isAssignable(f *Frame, e ast.Expr) bool {
	switch t := e.(type) {
	case *ast.Ident:
		_, ok := f.info.Uses[t].(*types.Var)
		return ok
	case *ast.SelectorExpr:
		if sel, ok := f.info.Selections[t]; ok && sel.Kind() == types.FieldVal {
			if _, isPtr := f.info.TypeOf(t.X).Underlying().(*types.Pointer); isPtr {
				return true
			}
			return x.isAssignable(f, t.X)
		}
		_, ok := f.info.Uses[t.Sel].(*types.Var)
		return ok
	case *ast.IndexExpr:
		bt := f.info.TypeOf(t.X)
		if _, ok := bt.Underlying().(*types.Array); ok {
			return x.isAssignable(f, t.X)
		}
		return true
	case *ast.StarExpr:
		return true
	case *ast.ParenExpr:
		return x.isAssignable(f, t.X)
	}
	return false
}

// materializeArray copies an array value into a fresh backing store and returns a slice over it.
func (x *X) materializeArray(st *State, arr Value, at *types.Array) Value {
	r := x.c.newRef(st, "arr")
	n := int(at.Len())
	st2 := types.NewSlice(at.Elem())
	if bl, ok := byteArrayLen(arr.T); ok {
		inner := x.c.innerArr(st, tUint8, 0, r)
		for i := 0; i < bl; i++ {
			inner = Store(inner, BVInt(int64(i), 64), packedByte(arr.S(), bl, i))
		}
		innerD := x.c.define("arrm", inner)
		x.c.setInnerArr(st, at.Elem(), 0, r, innerD)
		// the slice over the copy has the same abstract content as the array value
		x.c.assume(st.pc, Eq(App("bytes_of", SBytes, innerD, BVInt(0, 64), BVInt(int64(bl), 64)),
			x.c.uf(fmt.Sprintf("bytes_of_arr%d", bl), SBytes, arr.S())))
	} else {
		el := layoutOf(at.Elem())
		for k := range el.Comps {
			x.c.setInnerArr(st, at.Elem(), k, r, arr.C[k])
		}
	}
	ln := BVInt(int64(n), 64)
	return mkSlice(st2, r, BVInt(0, 64), ln, ln)
}

func (x *X) readBackArray(st *State, sl Value, at *types.Array, t types.Type) Value {
	ref, _, _, _ := sliceParts(sl)
	if bl, ok := byteArrayLen(t); ok {
		inner := x.c.innerArr(st, tUint8, 0, ref)
		var acc *Term
		for i := 0; i < bl; i++ {
			b := Select(inner, BVInt(int64(i), 64))
			if acc == nil {
				acc = b
			} else {
				acc = Concat(acc, b)
			}
		}
		return scalar(t, x.c.define("arrb", acc))
	}
	el := layoutOf(at.Elem())
	out := Value{T: t, C: make([]*Term, len(el.Comps))}
	for k := range el.Comps {
		out.C[k] = x.c.innerArr(st, at.Elem(), k, ref)
	}
	return out
}

func (x *X) compositeLit(f *Frame, st *State, n *ast.CompositeLit) Value {
	t := f.info.TypeOf(n)
	switch u := t.Underlying().(type) {
	case *types.Struct:
		v := zeroValue(t)
		for i, el := range n.Elts {
			if kv, ok := el.(*ast.KeyValueExpr); ok {
				name := kv.Key.(*ast.Ident).Name
				_, _, ft, _ := fieldRange(t, name)
				fv := x.exprTyped(f, st, kv.Value, ft)
				v = withField(v, name, fv)
			} else {
				fld := u.Field(i)
				fv := x.exprTyped(f, st, el, fld.Type())
				v = withField(v, fld.Name(), fv)
			}
		}
		return v
	case *types.Slice:
		r := x.c.newRef(st, "lit")
		idx := int64(0)
		maxIdx := int64(0)
		el := layoutOf(u.Elem())
		for k := range el.Comps {
			x.c.setInnerArr(st, u.Elem(), k, r, zeroOf(SArr(SBV(64), el.Comps[k].Sort)))
		}
		for _, e := range n.Elts {
			ve := e
			if kv, ok := e.(*ast.KeyValueExpr); ok {
				kvv := f.info.Types[kv.Key].Value
				i64, _ := constant.Int64Val(kvv)
				idx = i64
				ve = kv.Value
			}
			ev := x.litElem(f, st, ve, u.Elem())
			x.c.storeElem(st, u.Elem(), r, BVInt(idx, 64), ev)
			idx++
			if idx > maxIdx {
				maxIdx = idx
			}
		}
		ln := BVInt(maxIdx, 64)
		return mkSlice(t, r, BVInt(0, 64), ln, ln)
	case *types.Array:
		v := zeroValue(t)
		idx := int64(0)
		for _, e := range n.Elts {
			ve := e
			if kv, ok := e.(*ast.KeyValueExpr); ok {
				kvv := f.info.Types[kv.Key].Value
				i64, _ := constant.Int64Val(kvv)
				idx = i64
				ve = kv.Value
			}
			ev := x.litElem(f, st, ve, u.Elem())
			v = x.arraySet(v, BVInt(idx, 64), ev)
			idx++
		}
		return v
	case *types.Map:
		m := x.newMap(st, t)
		for _, e := range n.Elts {
			kv := e.(*ast.KeyValueExpr)
			k := x.exprTyped(f, st, kv.Key, u.Key())
			v := x.litElem(f, st, kv.Value, u.Elem())
			x.mapStore(st, m, x.mapKeyTerm(k), v)
		}
		return m
	}
	fail("unsupported composite literal of %v at %s", t, x.pos(n.Pos()))
	return Value{}
}

func (x *X) litElem(f *Frame, st *State, e ast.Expr, et types.Type) Value {
	if cl, ok := e.(*ast.CompositeLit); ok && cl.Type == nil {
		// elided type: &T{} for pointer elems
		if pt, ok := et.Underlying().(*types.Pointer); ok {
			_ = pt
			v := x.compositeLit(f, st, cl)
			r := x.c.newRef(st, "new")
			x.c.storePtr(st, v.T, r, v)
			return scalar(et, r)
		}
	}
	return x.exprTyped(f, st, e, et)
}

// arraySet returns array value arr with element idx replaced.
func (x *X) arraySet(arr Value, idx *Term, ev Value) Value {
	if bl, ok := byteArrayLen(arr.T); ok {
		return scalar(arr.T, packedSetByteSym(arr.S(), bl, idx, ev.S()))
	}
	out := Value{T: arr.T, C: make([]*Term, len(arr.C))}
	for k := range arr.C {
		out.C[k] = Store(arr.C[k], idx, ev.C[k])
	}
	return out
}

func (x *X) typeAssert(f *Frame, st *State, n *ast.TypeAssertExpr) (Value, *Term) {
	v := x.expr(f, st, n.X)
	t := f.info.TypeOf(n.Type)
	r := v.S()
	if _, ok := t.Underlying().(*types.Interface); ok {
		// interface-to-interface: succeeds iff non-nil (method set assumed)
		x.c.assumption("interface-to-interface assertion succeeds for every non-nil value")
		return Value{T: t, C: []*Term{r}}, Not(Eq(r, BVInt(0, 64)))
	}
	ok := And(Not(Eq(r, BVInt(0, 64))), Eq(App("dyntype", SInt, r), Lit(fmt.Sprint(x.prog.typeID(t)), SInt)))
	if _, isPtr := t.Underlying().(*types.Pointer); isPtr {
		return iteValue(ok, Value{T: t, C: []*Term{r}}, zeroValue(t)), ok
	}
	// boxed non-pointer value
	val := x.c.loadPtr(st, t, r)
	return iteValue(ok, val, zeroValue(t)), ok
}

func stripParens(e ast.Expr) ast.Expr {
	for {
		p, ok := e.(*ast.ParenExpr)
		if !ok {
			return e
		}
		e = p.X
	}
}

func shortFuncName(full string) string {
	i := strings.LastIndex(full, "/")
	if i < 0 {
		return full
	}
	if strings.HasPrefix(full, "(*") {
		return "(*" + full[i+1:]
	}
	if strings.HasPrefix(full, "(") {
		return "(" + full[i+1:]
	}
	return full[i+1:]
}
