package main

import (
	"fmt"
	"go/token"
)

// lemmaObligations: pure lemmas (no code). A lemma is either raw SMT (a closed formula whose
// negation must be unsat) or a spec expression over its parameters (universally quantified).
func (p *Program) lemmaObligations(props map[string]bool) []*Ctx {
	var out []*Ctx
	for _, lm := range p.contracts.Lemmas {
		want := false
		for _, q := range lm.Props {
			if props[q] {
				want = true
			}
		}
		if !want {
			continue
		}
		c := newCtx(p, "lemma:"+lm.Name)
		c.props = lm.Props
		pos := token.Position{Filename: lm.File, Line: lm.Line}
		if lm.SMT != "" {
			g := Lit(lm.SMT, SBool)
			g.size = 100
			c.obligeNamed("lemma:"+lm.Name, "lemma", TTrue, g, pos, lm.SMT)
		} else {
			func() {
				defer func() {
					if r := recover(); r != nil {
						if ee, ok := r.(evalErr); ok {
							c.oblige("unbound", TTrue, TFalse, pos, "lemma does not evaluate: "+ee.msg)
							return
						}
						panic(r)
					}
				}()
				x := &X{c: c, prog: p}
				names := map[string]Value{}
				for _, prm := range lm.Params {
					t, err := p.resolveTypeText(prm.Type, nil)
					if err != nil {
						fail("%v", err)
					}
					names[prm.Name] = c.freshValue("lp_"+prm.Name, t)
				}
				pe, err := parseSpecExpr(lm.Text)
				if err != nil {
					fail("%v", err)
				}
				st := newState()
				t := x.specBool(&SpecEnv{x: x, st: st, names: names}, pe)
				c.obligeNamed("lemma:"+lm.Name, "lemma", TTrue, t, pos, lm.Text)
			}()
		}
		out = append(out, c)
	}
	_ = fmt.Sprint
	return out
}
