package main

type ReplayResult struct {
	Confirmed bool              `json:"confirmed"`
	Inputs    map[string]string `json:"inputs,omitempty"`
	Test      string            `json:"test,omitempty"`
	Output    string            `json:"output,omitempty"`
	Note      string            `json:"note,omitempty"`
}

// tryReplay turns a sat model into a Go test against the real function (see replay_impl.go).
func tryReplay(prog *Program, o *Obligation, verif string) *ReplayResult {
	return replayImpl(prog, o, verif)
}
