package main

import (
	"encoding/json"
	"flag"
	"fmt"
	"os"
	"path/filepath"
	"strings"
)

type ReplayResult struct {
	Confirmed bool              `json:"confirmed"`
	Inputs    map[string]string `json:"inputs,omitempty"`
	Test      string            `json:"test,omitempty"`
	Output    string            `json:"output,omitempty"`
	Note      string            `json:"note,omitempty"`
	PkgDir    string            `json:"pkg_dir,omitempty"`
}

// tryReplay turns a sat model into a Go test against the real function (see replay_impl.go).
func tryReplay(prog *Program, o *Obligation, verif string) *ReplayResult {
	r := replayImpl(prog, o, verif)
	if r != nil && o.ctx != nil && o.ctx.fi != nil && len(o.ctx.fi.Pkg.GoFiles) > 0 {
		r.PkgDir = filepath.Dir(o.ctx.fi.Pkg.GoFiles[0])
	}
	return r
}

// cmdReplay re-runs the generated test of a replay file against the current tree.
// exit 1 = the recorded behaviour (same panic / same results) is reproduced; 0 = it is not.
func cmdReplay(args []string) int {
	fs := flag.NewFlagSet("replay", flag.ExitOnError)
	file := fs.String("file", "", "replay file written by a check")
	fs.Parse(args)
	data, err := os.ReadFile(*file)
	if err != nil {
		fmt.Fprintln(os.Stderr, err)
		return 2
	}
	var rec struct {
		Property   string        `json:"property"`
		Obligation string        `json:"obligation"`
		Reason     string        `json:"reason"`
		Replay     *ReplayResult `json:"replay"`
		Output     string        `json:"solver_output"`
	}
	if err := json.Unmarshal(data, &rec); err != nil {
		fmt.Fprintln(os.Stderr, err)
		return 2
	}
	fmt.Printf("property=%s obligation=%s\n%s\n", rec.Property, rec.Obligation, rec.Reason)
	if rec.Replay == nil || rec.Replay.Test == "" || rec.Replay.PkgDir == "" {
		fmt.Println("no executable counterexample recorded (no-failing-input-found); solver output:")
		fmt.Println(truncate(rec.Output, 2000))
		return 1
	}
	out, _ := runReplayTestDir(rec.Replay.PkgDir, rec.Replay.Test)
	fmt.Println(out)
	same := true
	for _, line := range strings.Split(rec.Replay.Output, "\n") {
		if strings.HasPrefix(line, "GOCV-PANIC") || strings.HasPrefix(line, "GOCV-RESULT") {
			if !strings.Contains(out, line) {
				same = false
			}
		}
	}
	if same && rec.Replay.Confirmed {
		fmt.Printf("VIOLATION property=%s replay=%s\n", rec.Property, *file)
		return 1
	}
	fmt.Println("the recorded behaviour is not reproduced on the current tree")
	return 0
}
