package main

func replayImpl(prog *Program, o *Obligation, verif string) *ReplayResult { return nil }
