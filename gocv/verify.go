package main

import (
	"fmt"
	"go/ast"
	"go/token"
	"go/types"
	"sort"
	"strings"
)

func (x *X) newFrame(fi *FuncInfo, spec *FuncSpec) *Frame {
	f := &Frame{fi: fi, info: fi.Pkg.TypesInfo, pkg: fi.Pkg.Types, spec: spec, loopOrd: map[ast.Node]int{},
		callOrd: map[*ast.CallExpr]int{}, makeOrd: map[*ast.CallExpr]int{}, boxedVars: map[types.Object]bool{},
		ghostVars: map[string]*types.Var{}, stmtText: map[ast.Stmt]string{}}
	loopN := 0
	callN := map[string]int{}
	makeN := 0
	info := f.info
	ast.Inspect(fi.Decl.Body, func(n ast.Node) bool {
		switch t := n.(type) {
		case *ast.ForStmt, *ast.RangeStmt:
			loopN++
			f.loopOrd[n] = loopN
		case *ast.CallExpr:
			fun := stripParens(t.Fun)
			name := ""
			switch ft := fun.(type) {
			case *ast.Ident:
				name = ft.Name
				if _, ok := info.Uses[ft].(*types.Builtin); ok && ft.Name == "make" {
					makeN++
					f.makeOrd[t] = makeN
				}
			case *ast.SelectorExpr:
				name = ft.Sel.Name
				// pointer-receiver method on addressable local value => box the local
				if s, ok := info.Selections[ft]; ok && s.Kind() == types.MethodVal {
					if fn, ok := s.Obj().(*types.Func); ok {
						sig := fn.Type().(*types.Signature)
						if sig.Recv() != nil {
							_, wantPtr := sig.Recv().Type().Underlying().(*types.Pointer)
							_, havePtr := info.TypeOf(ft.X).Underlying().(*types.Pointer)
							if wantPtr && !havePtr {
								if id, ok := stripParens(ft.X).(*ast.Ident); ok && len(s.Index()) == 1 {
									if obj, ok := info.Uses[id].(*types.Var); ok && !(obj.Pkg() != nil && obj.Parent() == obj.Pkg().Scope()) {
										f.boxedVars[obj] = true
									}
								}
							}
						}
					}
				}
			}
			if name != "" {
				callN[name]++
				f.callOrd[t] = callN[name]
			}
		case *ast.UnaryExpr:
			if t.Op == token.AND {
				if id, ok := stripParens(t.X).(*ast.Ident); ok {
					if obj, ok := info.Uses[id].(*types.Var); ok && !(obj.Pkg() != nil && obj.Parent() == obj.Pkg().Scope()) {
						f.boxedVars[obj] = true
					}
				}
			}
		}
		return true
	})
	return f
}

// verifyFunc generates all obligations of one function under contract.
func (p *Program) verifyFunc(fi *FuncInfo, spec *FuncSpec) (c *Ctx, err error) {
	c = newCtx(p, shortFuncName(fi.Obj.FullName()))
	c.props = spec.Props
	c.abstract = spec.Mode == "abstract"
	c.nopanic = !c.abstract
	switch spec.NoPanic {
	case "on":
		c.nopanic = true
	case "off":
		c.nopanic = false
	}
	x := &X{c: c, prog: p, revealed: map[string]bool{}}
	for _, r := range spec.Reveal {
		x.revealed[r] = true
	}
	defer func() {
		if r := recover(); r != nil {
			if ee, ok := r.(evalErr); ok {
				err = fmt.Errorf("%s: %s", fi.Obj.FullName(), ee.msg)
				return
			}
			panic(r)
		}
	}()
	f := x.newFrame(fi, spec)
	f.top = true
	st := newState()
	sig := fi.Obj.Type().(*types.Signature)
	names := map[string]Value{}
	addInput := func(v *types.Var, hint string) Value {
		val := c.freshValue("in_"+hint, v.Type())
		l := layoutOf(v.Type())
		for i, comp := range l.Comps {
			c.inputs = append(c.inputs, InputSym{Name: hint + comp.Path, Sym: val.C[i].Op, Sort: comp.Sort})
		}
		x.wfValue(st, val)
		x.bindParam(f, st, v, val)
		c.inputVals = append(c.inputVals, inputVal{Name: hint, IsRecv: sig.Recv() == v, V: val})
		return val
	}
	c.fi = fi
	if sig.Recv() != nil {
		rn := sig.Recv().Name()
		if rn == "" || rn == "_" {
			rn = "self"
		}
		v := addInput(sig.Recv(), rn)
		names[rn] = v
		names["self"] = v
		if _, isPtr := v.T.Underlying().(*types.Pointer); isPtr {
			c.assume(st.pc, Not(Eq(v.S(), BVInt(0, 64))))
			c.assume(st.pc, bvcmp("bvult", v.S(), c.alloc(st)))
		}
	}
	for i := 0; i < sig.Params().Len(); i++ {
		pv := sig.Params().At(i)
		pn := pv.Name()
		if pn == "" || pn == "_" {
			pn = fmt.Sprintf("p%d", i)
		}
		v := addInput(pv, pn)
		names[pn] = v
		names[fmt.Sprintf("p%d", i)] = v
		if _, isPtr := v.T.Underlying().(*types.Pointer); isPtr {
			c.assume(st.pc, bvcmp("bvult", v.S(), c.alloc(st)))
		}
	}
	for i := 0; i < sig.Results().Len(); i++ {
		r := sig.Results().At(i)
		f.results = append(f.results, r)
		if r.Name() != "" && r.Name() != "_" {
			x.bindParam(f, st, r, zeroValue(r.Type()))
		}
	}
	c.assume(st.pc, bvcmp("bvugt", c.alloc(st), BVInt(0, 64)))
	c.entrySym = c.symN
	f.entryNames = names
	// ghost variables
	for _, gv := range spec.GhostVars {
		t, err := p.resolveTypeText(gv.Type, f.pkg)
		if err != nil {
			fail("%s: ghost var %s: %v", spec.Key, gv.Name, err)
		}
		obj := types.NewVar(token.NoPos, f.pkg, "$ghost_"+gv.Name, t)
		f.ghostVars[gv.Name] = obj
		if gv.Init != "" {
			pe, err := parseSpecExpr(gv.Init)
			if err != nil {
				fail("%v", err)
			}
			v := x.specEval(&SpecEnv{x: x, st: st, names: names, pkg: f.pkg, frame: f}, pe)
			st.vars[obj] = Value{T: t, C: x.typed(v, t).C}
		} else {
			st.vars[obj] = c.freshValue("ghost_"+gv.Name, t)
		}
	}
	// requires
	env := &SpecEnv{x: x, st: st, names: names, pkg: f.pkg, frame: f}
	for i := range spec.Requires {
		t := x.specBool(env, x.clause(&spec.Requires[i]))
		c.assume(st.pc, t)
	}
	c.cover("pre", st.pc, x.pos(fi.Decl.Pos()))
	f.old = st.clone()
	// entry ghost statements
	for _, g := range spec.Ghost {
		if g.Where == "entry" {
			g.used = true
			x.execGhost(f, st, g, fi.Decl.Body.Lbrace+1)
		}
	}
	out := x.block(f, st, fi.Decl.Body.List)
	if out != nil && !out.pc.isFalse() {
		var vals []Value
		for _, r := range f.results {
			v, ok := x.readVar(out, r)
			if !ok {
				fail("missing return at end of %s", fi.Obj.FullName())
			}
			vals = append(vals, v)
		}
		x.finishReturn(f, out, vals)
	}
	// merge returns and check the postconditions once
	var rvars []*types.Var
	for i := 0; i < sig.Results().Len(); i++ {
		rvars = append(rvars, types.NewVar(token.NoPos, f.pkg, fmt.Sprintf("$ret%d", i), sig.Results().At(i).Type()))
	}
	for k, rs := range f.rets {
		for i, rv := range rvars {
			rs.vars[rv] = Value{T: rv.Type(), C: f.retVals[k][i].C}
		}
	}
	final := c.mergeAll(f.rets)
	endPos := x.pos(fi.Decl.Body.Rbrace)
	checkPosts := func(fin *State, suffix string, antecedentCovers bool) {
		var vals []Value
		for _, rv := range rvars {
			vals = append(vals, fin.vars[rv])
		}
		pnames := map[string]Value{}
		for k, v := range names {
			pnames[k] = v
		}
		bindResults(pnames, sig, vals)
		c.curResults = vals
		defer func() { c.curResults = nil }()
		penv := &SpecEnv{x: x, st: fin, old: f.old, names: pnames, oldNames: names, pkg: f.pkg, frame: f, pos: fi.Decl.Body.Rbrace}
		for i := range spec.Ensures {
			cl := &spec.Ensures[i]
			t := x.specBool(penv, x.clause(cl))
			nm := fmt.Sprintf("post#%d", i+1)
			if cl.Name != "" {
				nm = "post:" + cl.Name
			}
			if spec.Cases && len(fin.cases) > 1 {
				for ci, cs := range fin.cases {
					c.obligeSplit(fmt.Sprintf("%s%s~case%d", nm, suffix, ci+1), "post", And(fin.pc, cs), t, endPos, cl.Text)
				}
			} else {
				c.obligeSplit(nm+suffix, "post", fin.pc, t, endPos, cl.Text)
			}
			// antecedent reachability for implications (vacuity guard)
			if antecedentCovers && cl.Expr.Kind == "implies" {
				ant := x.specBool(penv, cl.Expr.L)
				c.cover(nm+"-antecedent", And(fin.pc, ant), endPos)
			}
		}
		for _, fr := range spec.Fresh {
			pe, perr := parseSpecExpr(fr)
			if perr != nil {
				fail("%v", perr)
			}
			v := x.specEval(penv, pe)
			r := v.C[0]
			c.obligeNamed("post:fresh("+fr+")"+suffix, "post", fin.pc,
				Or(Eq(r, BVInt(0, 64)), And(Not(bvcmp("bvult", r, c.alloc(f.old))), bvcmp("bvult", r, c.alloc(fin)))), endPos, "fresh "+fr)
		}
		if !c.abstract {
			x.frameObligations(f, fin, spec, names, endPos, suffix)
		} else {
			x.ghostFrameObligations(f, fin, spec, endPos, suffix)
			c.assumption("heap frame of abstract-mode function " + c.fnName + " is not checked; its callers havoc everything reachable from the arguments unless the contract lists modifies")
		}
	}
	if final == nil {
		c.cover("ret", TFalse, endPos)
		c.note("function never returns normally under its precondition")
	} else {
		c.cover("ret", final.pc, endPos)
		if spec.PerReturn {
			// one set of postcondition obligations per return site (smaller queries, no array ite);
			// antecedent covers are checked once on the merged state
			for k, rs := range f.rets {
				if rs == nil || rs.pc.isFalse() {
					continue
				}
				checkPosts(rs, fmt.Sprintf("@ret%d", k+1), false)
			}
			pn := map[string]Value{}
			for k, v := range names {
				pn[k] = v
			}
			var vals []Value
			for _, rv := range rvars {
				vals = append(vals, final.vars[rv])
			}
			bindResults(pn, sig, vals)
			penv := &SpecEnv{x: x, st: final, old: f.old, names: pn, oldNames: names, pkg: f.pkg, frame: f, pos: fi.Decl.Body.Rbrace}
			for i := range spec.Ensures {
				cl := &spec.Ensures[i]
				if x.clause(cl).Kind == "implies" {
					ant := x.specBool(penv, cl.Expr.L)
					c.cover(fmt.Sprintf("post#%d-antecedent", i+1), And(final.pc, ant), endPos)
				}
			}
		} else {
			checkPosts(final, "", true)
		}
	}
	for _, g := range spec.Ghost {
		if !g.used {
			c.oblige("unbound", TTrue, TFalse, token.Position{Filename: g.File, Line: g.Line}, "ghost anchor not found: "+g.Anchor)
		}
	}
	for _, cs := range spec.Callsites {
		if !cs.used {
			c.oblige("unbound", TTrue, TFalse, token.Position{Filename: cs.Clause.File, Line: cs.Clause.Line}, fmt.Sprintf("callsite %s#%d not found", cs.Callee, cs.Ord))
		}
	}
	for n := range spec.LoopInv {
		found := false
		for _, o := range f.loopOrd {
			if o == n {
				found = true
			}
		}
		if !found {
			c.oblige("unbound", TTrue, TFalse, token.Position{Filename: spec.File, Line: spec.Line}, fmt.Sprintf("loop %d not found", n))
		}
	}
	return c, nil
}

// frameObligations: every heap cell that existed at entry and is not covered by the
// modifies clause keeps its value.
func (x *X) frameObligations(f *Frame, final *State, spec *FuncSpec, names map[string]Value, pos token.Position, suffix string) {
	c := x.c
	if spec.ModAll {
		return
	}
	// allowed: heap name -> refs (terms over the entry state); whole[name] = any ref
	allowed := map[string][]*Term{}
	whole := map[string]bool{}
	env := &SpecEnv{x: x, st: f.old, names: names, pkg: f.pkg, frame: f}
	for _, m := range spec.Modifies {
		pe, err := parseSpecExpr(m)
		if err != nil || pe.Kind != "go" {
			fail("%s: bad modifies %q", spec.Key, m)
		}
		switch n := pe.Go.(type) {
		case *ast.Ident:
			if n.Name == "Store" {
				whole["$g!Store"] = true
			} else if _, ok := x.prog.contracts.ghostGlobals[n.Name]; ok {
				whole["$g!"+n.Name] = true
			} else if gv, ok := f.pkg.Scope().Lookup(n.Name).(*types.Var); ok {
				for _, comp := range layoutOf(gv.Type()).Comps {
					whole[globalName(gv)+comp.Path] = true
				}
			}
		case *ast.StarExpr:
			p := x.specGo(env, pe, n.X)
			pt := p.T.Underlying().(*types.Pointer)
			for _, comp := range layoutOf(pt.Elem()).Comps {
				h := ptrHeapName(pt.Elem(), comp.Path)
				allowed[h] = append(allowed[h], p.S())
			}
		case *ast.SelectorExpr:
			base := x.specGo(env, pe, n.X)
			pt := base.T.Underlying().(*types.Pointer)
			lo, hi, _, _ := fieldRange(pt.Elem(), n.Sel.Name)
			l := layoutOf(pt.Elem())
			for i := lo; i < hi; i++ {
				h := ptrHeapName(pt.Elem(), l.Comps[i].Path)
				allowed[h] = append(allowed[h], base.S())
			}
		case *ast.CallExpr:
			id := n.Fun.(*ast.Ident)
			v := x.specGo(env, pe, n.Args[0])
			if id.Name == "mapof" {
				u := v.T.Underlying().(*types.Map)
				key := typeKey(v.T)
				allowed["M!"+key+"!has"] = append(allowed["M!"+key+"!has"], v.S())
				allowed["M!"+key+"!len"] = append(allowed["M!"+key+"!len"], v.S())
				for _, comp := range layoutOf(u.Elem()).Comps {
					allowed["M!"+key+"!val"+comp.Path] = append(allowed["M!"+key+"!val"+comp.Path], v.S())
				}
				continue
			}
			sl := v.T.Underlying().(*types.Slice)
			for _, comp := range layoutOf(sl.Elem()).Comps {
				h := elemHeapName(sl.Elem(), comp.Path)
				allowed[h] = append(allowed[h], v.C[0])
			}
		}
	}
	var hnames []string
	for h := range final.heaps {
		hnames = append(hnames, h)
	}
	sort.Strings(hnames)
	alloc0 := c.alloc(f.old)
	for _, h := range hnames {
		if h == allocName || whole[h] {
			continue
		}
		cur := final.heaps[h]
		srt := final.hsorts[h]
		init := c.heap0(final, h, srt)
		if cur == init {
			continue
		}
		short := h
		if i := strings.LastIndex(h, "/"); i >= 0 {
			short = h[:2] + h[i+1:]
		}
		if !srt.IsArr() || !strings.HasPrefix(string(srt), "(Array (_ BitVec 64)") || strings.HasPrefix(h, "G!") || strings.HasPrefix(h, "$g!") {
			c.obligeNamed("frame:"+short+suffix, "frame", final.pc, Eq(cur, init), pos, "unchanged: "+h)
			continue
		}
		r := c.fresh("fr", SRef)
		conds := []*Term{bvcmp("bvult", r, alloc0)}
		for _, a := range allowed[h] {
			conds = append(conds, Not(Eq(r, a)))
		}
		goal := Implies(And(conds...), Eq(Select(cur, r), Select(init, r)))
		c.obligeNamed("frame:"+short+suffix, "frame", final.pc, goal, pos, "cells outside modifies unchanged: "+h)
	}
}

func specMentions(spec *FuncSpec, name string) bool {
	for _, cl := range spec.Requires {
		if strings.Contains(cl.Text, name) {
			return true
		}
	}
	for _, cl := range spec.Ensures {
		if strings.Contains(cl.Text, name) {
			return true
		}
	}
	return false
}

// ghostFrameObligations (abstract mode): ghost globals not listed in modifies are unchanged.
func (x *X) ghostFrameObligations(f *Frame, final *State, spec *FuncSpec, pos token.Position, suffix string) {
	c := x.c
	listed := map[string]bool{}
	for _, m := range spec.Modifies {
		listed[strings.TrimSpace(m)] = true
	}
	var hnames []string
	for h := range final.heaps {
		if strings.HasPrefix(h, "$g!") {
			hnames = append(hnames, h)
		}
	}
	sort.Strings(hnames)
	for _, h := range hnames {
		name := strings.TrimPrefix(h, "$g!")
		if listed[name] || spec.ModAll {
			continue
		}
		if name != "Store" && !specMentions(spec, name) {
			// ghost state this contract does not talk about (e.g. the io stream cursor in a
			// storage handler): an uncontracted callee may have touched it; not this function's claim
			continue
		}
		cur := final.heaps[h]
		init := c.heap0(final, h, final.hsorts[h])
		if cur == init {
			continue
		}
		c.obligeNamed("frame:"+name+suffix, "frame", final.pc, Eq(cur, init), pos, "ghost state unchanged: "+name)
	}
}
