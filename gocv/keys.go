package main

// Storage-key templates (property C17).
//
// Every call of utils.ConcatKey(contract, fields...) in the native contracts is extracted from the
// typed AST on every run. A call becomes a *template*: the contract address it is made under and a
// list of fields, each a string literal, a byte string of known fixed width, or a byte string of
// unknown width. Two obligations families are generated per native contract and discharged by an
// SMT string solver:
//
//   keys:<contract>:<T1>~<T2>   two different templates never produce the same byte string,
//                               whatever the field values (collision-free record kinds);
//   keys:<contract>:<T>:inj     one template is injective: equal keys imply equal field values
//                               (collision-free parameters).
//
// Field widths come only from the producing expression: GetUint64Bytes/GetUint32Bytes, x[:] of an
// array, methods on array-typed values, conversions of constants, and local variables defined once
// from such an expression. Everything else is of unknown width. Additional widths can be stated
// in /verif/contracts/keys.cv (`keywidth <function> <expression text> <N> -- reason`); those are
// assumptions and are listed as such.

import (
	"fmt"
	"go/ast"
	"go/constant"
	"go/token"
	"go/types"
	"os"
	"path/filepath"
	"sort"
	"strings"

	"golang.org/x/tools/go/packages"
)

type keyField struct {
	Lit   string // literal text when IsLit
	IsLit bool
	Width int // > 0: fixed width; 0: unknown
	Src   string
	Alts  []string // a string parameter that every caller passes a literal for: the literals
	Name  string   // for a literal: the constant or variable it was written as (the record kind's name)
}

type keyTemplate struct {
	Contract string
	Fields   []keyField
	Sites    []string // file:line of the calls with this shape
	Funcs    []string
	Writers  map[string]string // package -> first site where a key of this shape is stored (Put / PutBytes)
}

func (t *keyTemplate) shape() string {
	var parts []string
	for _, f := range t.Fields {
		switch {
		case f.IsLit && f.Name != "":
			// two differently named prefixes are two record kinds even when their text is the same
			parts = append(parts, fmt.Sprintf("%s=%q", f.Name, f.Lit))
		case f.IsLit:
			parts = append(parts, fmt.Sprintf("%q", f.Lit))
		case f.Width > 0:
			parts = append(parts, fmt.Sprintf("b%d", f.Width))
		default:
			parts = append(parts, "b*")
		}
	}
	return strings.Join(parts, "+")
}

type keyWidthHint struct {
	Func, Expr string
	Width      int
	Reason     string
	used       bool
}

const concatKeyName = modulePath + "/native/service/utils.ConcatKey"

// keyObligations extracts the templates and builds the obligations.
func (p *Program) keyObligations(repo, verif string) ([]*Ctx, error) {
	hints, err := loadKeyHints(filepath.Join(verif, "contracts", "keys.widths"))
	if err != nil {
		return nil, err
	}
	fset := token.NewFileSet()
	cfg := &packages.Config{
		Mode: packages.NeedName | packages.NeedFiles | packages.NeedSyntax | packages.NeedTypes | packages.NeedTypesInfo |
			packages.NeedImports | packages.NeedCompiledGoFiles,
		Dir: repo, Fset: fset, BuildFlags: []string{"-tags=verif"},
		Env: append(os.Environ(), "GOFLAGS=-mod=readonly", "GOPROXY=off", "GOSUMDB=off", "GOTOOLCHAIN=local"),
	}
	pkgs, err := packages.Load(cfg, "./native/...", "./core/store/ledgerstore", "./http/base/actor", "./txnpool/proc")
	if err != nil {
		return nil, err
	}
	byContract := map[string]map[string]*keyTemplate{}
	ix := buildKeyIndex(pkgs)
	var widthNotes []string
	var undecided []string
	nCalls := 0
	for _, pkg := range pkgs {
		if pkg.TypesInfo == nil {
			continue
		}
		for _, file := range pkg.Syntax {
			fname := fset.Position(file.Pos()).Filename
			if strings.HasSuffix(fname, "_test.go") {
				continue
			}
			for _, d := range file.Decls {
				fd, ok := d.(*ast.FuncDecl)
				if !ok || fd.Body == nil {
					continue
				}
				fnName := pkg.Types.Name() + "." + fd.Name.Name
				ast.Inspect(fd.Body, func(n ast.Node) bool {
					call, ok := n.(*ast.CallExpr)
					if !ok {
						return true
					}
					if !isConcatKeyCall(pkg.TypesInfo, call) {
						return true
					}
					nCalls++
					pos := fset.Position(call.Pos())
					site := fmt.Sprintf("%s:%d", strings.TrimPrefix(pos.Filename, repo+"/"), pos.Line)
					if call.Ellipsis != token.NoPos || len(call.Args) == 0 {
						undecided = append(undecided, site+": variadic spread, fields not visible")
						return true
					}
					kc := &keyClassifier{info: pkg.TypesInfo, fn: fd, fset: fset, hints: hints, fnName: fnName, idx: ix, notes: &widthNotes}
					contract := kc.contractName(call.Args[0])
					if contract == "" {
						undecided = append(undecided, site+": contract address is not a package-level address variable")
						return true
					}
					var fields []keyField
					for _, a := range call.Args[1:] {
						fields = append(fields, kc.classify(a, 0))
					}
					m := byContract[contract]
					if m == nil {
						m = map[string]*keyTemplate{}
						byContract[contract] = m
					}
					// a field with alternatives (literal passed by every caller) yields one template per literal
					for _, f := range fields {
						if !f.IsLit && f.Width == 0 && len(f.Alts) == 0 {
							widthNotes = append(widthNotes, fmt.Sprintf("unknown width: %s %s (%s)", fnName, f.Src, site))
						}
					}
					writes := isKeyWriteSite(pkg.TypesInfo, fd, call)
					for _, fs := range expandAlts(fields) {
						t := &keyTemplate{Contract: contract, Fields: fs}
						if old, ok := m[t.shape()]; ok {
							old.Sites = append(old.Sites, site)
							t = old
						} else {
							t.Sites = []string{site}
							m[t.shape()] = t
						}
						if writes {
							if t.Writers == nil {
								t.Writers = map[string]string{}
							}
							if _, ok := t.Writers[pkg.PkgPath]; !ok {
								t.Writers[pkg.PkgPath] = site
							}
						}
					}
					return true
				})
			}
		}
	}
	if nCalls == 0 {
		return nil, fmt.Errorf("no ConcatKey call found: the extraction is broken")
	}
	var out []*Ctx
	var contracts []string
	for c := range byContract {
		contracts = append(contracts, c)
	}
	sort.Strings(contracts)
	for _, cname := range contracts {
		c := newCtx(p, "keys:"+cname)
		c.props = []string{"C17"}
		var shapes []string
		for s := range byContract[cname] {
			shapes = append(shapes, s)
		}
		sort.Strings(shapes)
		for i, s1 := range shapes {
			t1 := byContract[cname][s1]
			pos := token.Position{Filename: filepath.Join(repo, strings.SplitN(t1.Sites[0], ":", 2)[0])}
			fmt.Sscanf(strings.SplitN(t1.Sites[0], ":", 2)[1], "%d", &pos.Line)
			// one record kind per prefix: records stored under one template from two different packages
			// are two kinds of record unless a chain id (8 bytes) right after the prefix keeps them apart
			// (routers share the header-sync and cross-chain prefixes, each under its own chain ids)
			if len(t1.Writers) > 1 && !chainSeparated(t1) {
				var ws []string
				for pk, st := range t1.Writers {
					ws = append(ws, strings.TrimPrefix(pk, modulePath+"/")+" ("+st+")")
				}
				sort.Strings(ws)
				c.rawOblige(fmt.Sprintf("keys:%s:%s:one-writer-package", cname, s1), "(set-logic QF_SLIA)\n(check-sat)\n", pos,
					fmt.Sprintf("template %s of %s is written from %d packages without a chain-id field after the prefix: %s", s1, cname, len(ws), strings.Join(ws, "; ")))
			}
			// injectivity of one template
			c.rawOblige(fmt.Sprintf("keys:%s:%s:inj", cname, s1), keyQuery(t1, t1, true), pos,
				fmt.Sprintf("template %s of %s is injective in its fields (sites: %s)", s1, cname, strings.Join(t1.Sites, ", ")))
			for _, s2 := range shapes[i+1:] {
				t2 := byContract[cname][s2]
				if sameKind(t1, t2, byContract[cname]) {
					// same literals, same arity, widths equal or unknown on one side, and no third
					// template of another width competes: one record kind seen with and without
					// width information; its injectivity obligation covers it
					c.note(fmt.Sprintf("templates %s and %s of %s are one record kind (the second only adds a width)", s1, s2, cname))
					continue
				}
				c.rawOblige(fmt.Sprintf("keys:%s:%s~%s", cname, s1, s2), keyQuery(t1, t2, false), pos,
					fmt.Sprintf("templates %s (%s) and %s (%s) of %s never coincide", s1, t1.Sites[0], s2, t2.Sites[0], cname))
			}
		}
		c.note(fmt.Sprintf("%d key templates extracted for %s: %s", len(shapes), cname, strings.Join(shapes, " | ")))
		out = append(out, c)
	}
	meta := newCtx(p, "keys:extraction")
	meta.props = []string{"C17"}
	meta.note(fmt.Sprintf("%d ConcatKey call sites, %d contracts", nCalls, len(contracts)))
	sort.Strings(widthNotes)
	for _, w := range widthNotes {
		meta.note(w)
	}
	for _, u := range undecided {
		meta.assumption("key template not decided (outside the extraction): " + u)
	}
	for _, h := range hints {
		if h.used {
			meta.assumption(fmt.Sprintf("assumed key field width: in %s, %s is %d bytes (%s)", h.Func, h.Expr, h.Width, h.Reason))
		} else {
			meta.rawOblige("keys:hint-unused:"+h.Func+":"+h.Expr, "(assert true)\n(check-sat)\n", token.Position{},
				"a keywidth line in contracts/keys.cv matches no ConcatKey argument any more")
		}
	}
	out = append(out, meta)
	return out, nil
}

// chainSeparated: an 8-byte field directly follows (or precedes) the literal prefix.
func chainSeparated(t *keyTemplate) bool {
	for i, f := range t.Fields {
		if f.IsLit {
			if i+1 < len(t.Fields) && !t.Fields[i+1].IsLit && t.Fields[i+1].Width == 8 {
				return true
			}
			if i > 0 && !t.Fields[i-1].IsLit && t.Fields[i-1].Width == 8 {
				return true
			}
			return false
		}
	}
	return false
}

// isKeyWriteSite: the key built by this ConcatKey call is stored under: the call (or the local
// variable it is the only definition of) is the first argument of a call named Put or PutBytes
// (key argument of utils.PutBytes is its second) in the same function.
func isKeyWriteSite(info *types.Info, fd *ast.FuncDecl, ck *ast.CallExpr) bool {
	var keyVar types.Object
	ast.Inspect(fd.Body, func(n ast.Node) bool {
		if as, ok := n.(*ast.AssignStmt); ok && len(as.Lhs) == len(as.Rhs) {
			for i, r := range as.Rhs {
				if stripParens(r) == ast.Expr(ck) {
					if id, ok := as.Lhs[i].(*ast.Ident); ok {
						keyVar = info.Defs[id]
						if keyVar == nil {
							keyVar = info.Uses[id]
						}
					}
				}
			}
		}
		return true
	})
	isKey := func(e ast.Expr) bool {
		e = stripParens(e)
		if e == ast.Expr(ck) {
			return true
		}
		if id, ok := e.(*ast.Ident); ok && keyVar != nil && info.Uses[id] == keyVar {
			return true
		}
		return false
	}
	found := false
	ast.Inspect(fd.Body, func(n ast.Node) bool {
		call, ok := n.(*ast.CallExpr)
		if !ok || found {
			return !found
		}
		name := ""
		switch f := call.Fun.(type) {
		case *ast.Ident:
			name = f.Name
		case *ast.SelectorExpr:
			name = f.Sel.Name
		}
		switch name {
		case "Put":
			if len(call.Args) >= 1 && isKey(call.Args[0]) {
				found = true
			}
		case "PutBytes":
			if len(call.Args) >= 2 && isKey(call.Args[1]) {
				found = true
			}
		}
		return true
	})
	return found
}

// expandAlts: the cartesian product over fields that carry literal alternatives.
func expandAlts(fields []keyField) [][]keyField {
	out := [][]keyField{{}}
	for _, f := range fields {
		var next [][]keyField
		if len(f.Alts) == 0 {
			for _, pre := range out {
				next = append(next, append(append([]keyField{}, pre...), f))
			}
		} else {
			for _, pre := range out {
				for _, a := range f.Alts {
					next = append(next, append(append([]keyField{}, pre...), keyField{IsLit: true, Lit: a, Src: f.Src}))
				}
			}
		}
		out = next
	}
	return out
}

// refines: same arity and literals, every width equal or unknown in g (the more general one).
func refines(r, g *keyTemplate) bool {
	if len(r.Fields) != len(g.Fields) {
		return false
	}
	for i := range r.Fields {
		a, b := r.Fields[i], g.Fields[i]
		if a.IsLit != b.IsLit || (a.IsLit && (a.Lit != b.Lit || a.Name != b.Name)) {
			return false
		}
		if !a.IsLit && b.Width != 0 && a.Width != b.Width {
			return false
		}
	}
	return true
}

// sameKind: t1 and t2 differ only in that one of them lacks width information, and no other
// template of the contract refines the general one with different widths (which would make the
// general template ambiguous between two record kinds).
func sameKind(t1, t2 *keyTemplate, all map[string]*keyTemplate) bool {
	var g, r *keyTemplate
	switch {
	case refines(t1, t2):
		r, g = t1, t2
	case refines(t2, t1):
		r, g = t2, t1
	default:
		return false
	}
	for _, o := range all {
		if o == g || o == r {
			continue
		}
		if refines(o, g) && !refines(o, r) && !refines(r, o) {
			return false
		}
	}
	return true
}

// rawOblige records an obligation whose query text is complete as it stands ("unsat" = holds).
func (c *Ctx) rawOblige(name, query string, pos token.Position, detail string) {
	o := &Obligation{Name: name, Fn: c.fnName, Kind: "lemma", Goal: TFalse, PC: TTrue, Pos: pos, Props: c.props, Detail: detail,
		ctx: c, Raw: query}
	c.obls = append(c.obls, o)
}

func isConcatKeyCall(info *types.Info, call *ast.CallExpr) bool {
	var id *ast.Ident
	switch f := call.Fun.(type) {
	case *ast.Ident:
		id = f
	case *ast.SelectorExpr:
		id = f.Sel
	}
	if id == nil {
		return false
	}
	fn, ok := info.Uses[id].(*types.Func)
	return ok && fn.FullName() == concatKeyName
}

type keyClassifier struct {
	info   *types.Info
	fn     *ast.FuncDecl
	fset   *token.FileSet
	hints  []*keyWidthHint
	fnName string
	idx    *keyIndex
	notes  *[]string
}

// keyIndex: every call of a module function, and the declaration of every module function, across
// the loaded packages (for widths of parameters: all callers must agree) and literal initialisers
// of package-level string variables.
type keyIndex struct {
	calls map[*types.Func][]keyCallSite
	decls map[*types.Func]keyDecl
	inits map[*types.Var]string
}

type keyCallSite struct {
	info *types.Info
	fn   *ast.FuncDecl
	call *ast.CallExpr
	name string
}

type keyDecl struct {
	info *types.Info
	fn   *ast.FuncDecl
}

func buildKeyIndex(pkgs []*packages.Package) *keyIndex {
	ix := &keyIndex{calls: map[*types.Func][]keyCallSite{}, decls: map[*types.Func]keyDecl{}, inits: map[*types.Var]string{}}
	for _, pkg := range pkgs {
		if pkg.TypesInfo == nil {
			continue
		}
		for _, file := range pkg.Syntax {
			for _, d := range file.Decls {
				switch dd := d.(type) {
				case *ast.GenDecl:
					if dd.Tok != token.VAR {
						continue
					}
					for _, sp := range dd.Specs {
						vs := sp.(*ast.ValueSpec)
						for i, nm := range vs.Names {
							if i < len(vs.Values) {
								if tv, ok := pkg.TypesInfo.Types[vs.Values[i]]; ok && tv.Value != nil && tv.Value.Kind() == constant.String {
									if v, ok := pkg.TypesInfo.Defs[nm].(*types.Var); ok {
										ix.inits[v] = constant.StringVal(tv.Value)
									}
								}
							}
						}
					}
				case *ast.FuncDecl:
					if dd.Body == nil {
						continue
					}
					if fo, ok := pkg.TypesInfo.Defs[dd.Name].(*types.Func); ok {
						ix.decls[fo] = keyDecl{pkg.TypesInfo, dd}
					}
					name := pkg.Types.Name() + "." + dd.Name.Name
					ast.Inspect(dd.Body, func(n ast.Node) bool {
						call, ok := n.(*ast.CallExpr)
						if !ok {
							return true
						}
						var id *ast.Ident
						switch f := call.Fun.(type) {
						case *ast.Ident:
							id = f
						case *ast.SelectorExpr:
							id = f.Sel
						}
						if id != nil {
							if fo, ok := pkg.TypesInfo.Uses[id].(*types.Func); ok && fo.Pkg() != nil && strings.HasPrefix(fo.Pkg().Path(), modulePath) {
								ix.calls[fo] = append(ix.calls[fo], keyCallSite{pkg.TypesInfo, dd, call, name})
							}
						}
						return true
					})
				}
			}
		}
	}
	return ix
}

// paramLits: the literals passed for a parameter when every call of the function in the loaded
// packages passes a string constant (prefix parameters of shared put/get helpers).
func (k *keyClassifier) paramLits(v *types.Var, depth int) []string {
	fo, ok := k.info.Defs[k.fn.Name].(*types.Func)
	if !ok || k.idx == nil {
		return nil
	}
	sig := fo.Type().(*types.Signature)
	pi := -1
	for i := 0; i < sig.Params().Len(); i++ {
		if sig.Params().At(i) == v {
			pi = i
		}
	}
	if pi < 0 || sig.Variadic() || len(k.idx.calls[fo]) == 0 {
		return nil
	}
	seen := map[string]bool{}
	for _, cs := range k.idx.calls[fo] {
		if pi >= len(cs.call.Args) || cs.call.Ellipsis != token.NoPos {
			return nil
		}
		sub := &keyClassifier{info: cs.info, fn: cs.fn, fset: k.fset, hints: k.hints, fnName: cs.name, idx: k.idx, notes: k.notes}
		f := sub.classify(cs.call.Args[pi], depth+1)
		switch {
		case f.IsLit:
			seen[f.Lit] = true
		case len(f.Alts) > 0:
			for _, a := range f.Alts {
				seen[a] = true
			}
		default:
			return nil
		}
	}
	var out []string
	for s := range seen {
		out = append(out, s)
	}
	sort.Strings(out)
	return out
}

// paramWidth: the width of a []byte parameter when every call of the function in the loaded
// packages passes a byte string of one and the same known width.
func (k *keyClassifier) paramWidth(v *types.Var, depth int) int {
	fo, ok := k.info.Defs[k.fn.Name].(*types.Func)
	if !ok || k.idx == nil {
		return 0
	}
	sig := fo.Type().(*types.Signature)
	pi := -1
	for i := 0; i < sig.Params().Len(); i++ {
		if sig.Params().At(i) == v {
			pi = i
		}
	}
	if pi < 0 || sig.Variadic() {
		return 0
	}
	sites := k.idx.calls[fo]
	if len(sites) == 0 {
		return 0
	}
	w := 0
	for _, cs := range sites {
		if pi >= len(cs.call.Args) || cs.call.Ellipsis != token.NoPos {
			return 0
		}
		sub := &keyClassifier{info: cs.info, fn: cs.fn, fset: k.fset, hints: k.hints, fnName: cs.name, idx: k.idx, notes: k.notes}
		f := sub.classify(cs.call.Args[pi], depth+1)
		if f.IsLit {
			f.Width = len(f.Lit)
		}
		if f.Width == 0 || (w != 0 && f.Width != w) {
			return 0
		}
		w = f.Width
	}
	return w
}

// contractName: the package-level address variable a contract argument denotes (directly or through
// a local variable defined once from it).
func (k *keyClassifier) contractName(e ast.Expr) string {
	e = stripParens(e)
	switch n := e.(type) {
	case *ast.SelectorExpr:
		if v, ok := k.info.Uses[n.Sel].(*types.Var); ok && v.Pkg() != nil && v.Parent() == v.Pkg().Scope() {
			return v.Name()
		}
	case *ast.Ident:
		if v, ok := k.info.Uses[n].(*types.Var); ok {
			if v.Pkg() != nil && v.Parent() == v.Pkg().Scope() {
				return v.Name()
			}
			if rhs := k.singleDef(v); rhs != nil {
				return k.contractName(rhs)
			}
		}
	}
	return ""
}

// singleDef: the right-hand side of the only definition/assignment of a local variable.
func (k *keyClassifier) singleDef(v *types.Var) ast.Expr {
	var rhs ast.Expr
	n := 0
	ast.Inspect(k.fn.Body, func(nd ast.Node) bool {
		switch s := nd.(type) {
		case *ast.AssignStmt:
			for i, l := range s.Lhs {
				id, ok := l.(*ast.Ident)
				if !ok {
					continue
				}
				obj := k.info.Defs[id]
				if obj == nil {
					obj = k.info.Uses[id]
				}
				if obj == v {
					n++
					if len(s.Rhs) == len(s.Lhs) {
						rhs = s.Rhs[i]
					} else {
						rhs = nil
						n += 10 // multi-value definition: not a plain expression
					}
				}
			}
		case *ast.ValueSpec:
			for i, id := range s.Names {
				if k.info.Defs[id] == v {
					n++
					if i < len(s.Values) {
						rhs = s.Values[i]
					}
				}
			}
		case *ast.UnaryExpr:
			if s.Op == token.AND {
				if id, ok := stripParens(s.X).(*ast.Ident); ok && k.info.Uses[id] == v {
					n += 10 // address taken: may be written elsewhere
				}
			}
		}
		return true
	})
	if n == 1 {
		return rhs
	}
	return nil
}

func byteArrayLenOf(t types.Type) (int, bool) {
	if t == nil {
		return 0, false
	}
	if a, ok := t.Underlying().(*types.Array); ok {
		if b, ok := a.Elem().Underlying().(*types.Basic); ok && b.Kind() == types.Uint8 {
			return int(a.Len()), true
		}
	}
	return 0, false
}

func (k *keyClassifier) classify(e ast.Expr, depth int) keyField {
	src := nodeText(k.fset, e)
	f := keyField{Src: src}
	e = stripParens(e)
	if depth > 6 {
		return k.hinted(f)
	}
	// constant string converted to bytes, or a constant itself
	if tv, ok := k.info.Types[e]; ok && tv.Value != nil && tv.Value.Kind() == constant.String {
		return keyField{IsLit: true, Lit: constant.StringVal(tv.Value), Src: src, Name: k.litName(e)}
	}
	switch n := e.(type) {
	case *ast.CallExpr:
		// conversion []byte(x)
		if tv, ok := k.info.Types[n.Fun]; ok && tv.IsType() && len(n.Args) == 1 {
			if av, ok := k.info.Types[n.Args[0]]; ok && av.Value != nil && av.Value.Kind() == constant.String {
				return keyField{IsLit: true, Lit: constant.StringVal(av.Value), Src: src, Name: k.litName(n.Args[0])}
			}
			inner := k.classify(n.Args[0], depth+1)
			inner.Src = src
			return k.hinted(inner)
		}
		var id *ast.Ident
		var recv ast.Expr
		switch fn := n.Fun.(type) {
		case *ast.Ident:
			id = fn
		case *ast.SelectorExpr:
			id = fn.Sel
			recv = fn.X
		}
		if id != nil {
			if fo, ok := k.info.Uses[id].(*types.Func); ok {
				switch fo.FullName() {
				case modulePath + "/native/service/utils.GetUint64Bytes":
					f.Width = 8
					return f
				case modulePath + "/native/service/utils.GetUint32Bytes":
					f.Width = 4
					return f
				}
				// method on an array-typed value (or pointer to one) returning []byte: Bytes, ToArray, CloneBytes ...
				if sig, ok := fo.Type().(*types.Signature); ok && sig.Recv() != nil && recv != nil && sig.Params().Len() == 0 {
					rt := sig.Recv().Type()
					if pt, ok := rt.Underlying().(*types.Pointer); ok {
						rt = pt.Elem()
					}
					if w, ok := byteArrayLenOf(rt); ok {
						switch fo.Name() {
						case "Bytes", "ToArray", "CloneBytes":
							f.Width = w
							return f
						}
					}
				}
			}
		}
	case *ast.SliceExpr:
		if n.High != nil && !n.Slice3 {
			// constant bounds: x[a:b] has width b-a (a slice expression out of range panics, it never yields another width)
			if hv, ok := k.info.Types[n.High]; ok && hv.Value != nil && hv.Value.Kind() == constant.Int {
				lo := int64(0)
				okLo := n.Low == nil
				if n.Low != nil {
					if lv, ok := k.info.Types[n.Low]; ok && lv.Value != nil && lv.Value.Kind() == constant.Int {
						lo, okLo = constant.Int64Val(lv.Value)
					}
				}
				if hi, okHi := constant.Int64Val(hv.Value); okHi && okLo && hi > lo {
					f.Width = int(hi - lo)
					return f
				}
			}
		}
		if n.Low == nil && n.High == nil {
			t := k.info.TypeOf(n.X)
			if pt, ok := t.Underlying().(*types.Pointer); ok {
				t = pt.Elem()
			}
			if w, ok := byteArrayLenOf(t); ok {
				f.Width = w
				return f
			}
		}
	case *ast.SelectorExpr:
		// qualified package-level string variable initialised with a literal (key prefixes declared with var)
		if v, ok := k.info.Uses[n.Sel].(*types.Var); ok && k.idx != nil {
			if lit, ok := k.idx.inits[v]; ok {
				return keyField{IsLit: true, Lit: lit, Src: src, Name: v.Name()}
			}
		}
	case *ast.Ident:
		if v, ok := k.info.Uses[n].(*types.Var); ok {
			if k.idx != nil {
				if lit, ok := k.idx.inits[v]; ok {
					return keyField{IsLit: true, Lit: lit, Src: src, Name: v.Name()}
				}
			}
			if v.Pkg() == nil || v.Parent() != v.Pkg().Scope() {
				if rhs := k.singleDef(v); rhs != nil {
					inner := k.classify(rhs, depth+1)
					inner.Src = src
					return k.hinted(inner)
				}
				if lits := k.paramLits(v, depth); len(lits) > 0 {
					f.Alts = lits
					return f
				}
				if w := k.paramWidth(v, depth); w > 0 {
					f.Width = w
					return f
				}
			}
		}
	}
	return k.hinted(f)
}

// litName: the package-qualified name of the constant an expression denotes ("" for a plain literal).
func (k *keyClassifier) litName(e ast.Expr) string {
	var id *ast.Ident
	switch n := stripParens(e).(type) {
	case *ast.Ident:
		id = n
	case *ast.SelectorExpr:
		id = n.Sel
	}
	if id == nil {
		return ""
	}
	// unqualified: forked router packages (zilliqa / zilliqalegacy, neo3 / neo3legacy) declare the same
	// constant with the same text for the same record kind
	if o := k.info.Uses[id]; o != nil && o.Pkg() != nil {
		return o.Name()
	}
	return ""
}

// hinted applies a keywidth assumption to a field of unknown width.
func (k *keyClassifier) hinted(f keyField) keyField {
	if f.IsLit || f.Width > 0 {
		return f
	}
	for _, h := range k.hints {
		if h.Func == k.fnName && h.Expr == f.Src {
			h.used = true
			f.Width = h.Width
			return f
		}
	}
	return f
}

func loadKeyHints(path string) ([]*keyWidthHint, error) {
	data, err := os.ReadFile(path)
	if err != nil {
		return nil, nil
	}
	var out []*keyWidthHint
	for i, line := range strings.Split(string(data), "\n") {
		line = strings.TrimSpace(line)
		if line == "" || strings.HasPrefix(line, "--") {
			continue
		}
		reason := ""
		if j := strings.Index(line, " -- "); j >= 0 {
			reason = strings.TrimSpace(line[j+4:])
			line = strings.TrimSpace(line[:j])
		}
		// keywidth <function> <width> <expression text>
		parts := strings.SplitN(line, " ", 4)
		if len(parts) != 4 || parts[0] != "keywidth" {
			return nil, fmt.Errorf("%s:%d: expected `keywidth <pkg.Func> <N> <expression text> -- reason`", path, i+1)
		}
		var w int
		if _, err := fmt.Sscanf(parts[2], "%d", &w); err != nil || w <= 0 {
			return nil, fmt.Errorf("%s:%d: bad width", path, i+1)
		}
		out = append(out, &keyWidthHint{Func: parts[1], Expr: normStmt(parts[3]), Width: w, Reason: reason})
	}
	return out, nil
}

func smtStrLit(s string) string {
	var sb strings.Builder
	sb.WriteByte('"')
	for _, r := range []byte(s) {
		switch {
		case r == '"':
			sb.WriteString(`""`)
		case r < 0x20 || r > 0x7e || r == '\\':
			fmt.Fprintf(&sb, "\\u{%x}", r)
		default:
			sb.WriteByte(r)
		}
	}
	sb.WriteByte('"')
	return sb.String()
}

// keyQuery: satisfiable iff the two templates can produce the same byte string (for sameTemplate:
// with different field values). Byte strings are SMT strings (one character per byte).
func keyQuery(t1, t2 *keyTemplate, sameTemplate bool) string {
	var sb strings.Builder
	sb.WriteString("(set-logic QF_SLIA)\n")
	side := func(t *keyTemplate, tag string) (string, []string) {
		var parts, vars []string
		for i, f := range t.Fields {
			if f.IsLit {
				parts = append(parts, smtStrLit(f.Lit))
				vars = append(vars, "")
				continue
			}
			v := fmt.Sprintf("%s%d", tag, i)
			fmt.Fprintf(&sb, "(declare-const %s String)\n", v)
			if f.Width > 0 {
				fmt.Fprintf(&sb, "(assert (= (str.len %s) %d))\n", v, f.Width)
			}
			parts = append(parts, v)
			vars = append(vars, v)
		}
		switch len(parts) {
		case 0:
			return `""`, vars
		case 1:
			return parts[0], vars
		}
		return "(str.++ " + strings.Join(parts, " ") + ")", vars
	}
	k1, v1 := side(t1, "a")
	k2, v2 := side(t2, "b")
	fmt.Fprintf(&sb, "(assert (= %s %s))\n", k1, k2)
	if sameTemplate {
		var diffs []string
		for i := range v1 {
			if v1[i] != "" {
				diffs = append(diffs, fmt.Sprintf("(not (= %s %s))", v1[i], v2[i]))
			}
		}
		switch len(diffs) {
		case 0:
			sb.WriteString("(assert false)\n")
		case 1:
			fmt.Fprintf(&sb, "(assert %s)\n", diffs[0])
		default:
			fmt.Fprintf(&sb, "(assert (or %s))\n", strings.Join(diffs, " "))
		}
	}
	sb.WriteString("(check-sat)\n(get-model)\n")
	return sb.String()
}
