package main

import (
	"fmt"
	"go/constant"
	"go/token"
	"go/types"
	"math/big"
)

// Value is a symbolic Go value: its type and one term per layout component.
type Value struct {
	T types.Type
	C []*Term
	K constant.Value // set for (possibly untyped) constants
}

func (v Value) S() *Term {
	if len(v.C) != 1 {
		panic(fmt.Sprintf("value of type %v is not scalar (%d comps)", v.T, len(v.C)))
	}
	return v.C[0]
}

func scalar(t types.Type, term *Term) Value { return Value{T: t, C: []*Term{term}} }

var (
	tBool   = types.Typ[types.Bool]
	tInt    = types.Typ[types.Int]
	tUint64 = types.Typ[types.Uint64]
	tUint8  = types.Typ[types.Uint8]
	tString = types.Typ[types.String]
)

func boolVal(t *Term) Value { return scalar(tBool, t) }

func zeroValue(t types.Type) Value {
	l := layoutOf(t)
	v := Value{T: t, C: make([]*Term, len(l.Comps))}
	for i, c := range l.Comps {
		v.C[i] = zeroOf(c.Sort)
	}
	return v
}

func iteValue(c *Term, a, b Value) Value {
	if len(a.C) != len(b.C) {
		panic(fmt.Sprintf("iteValue: shape mismatch %v vs %v", a.T, b.T))
	}
	out := Value{T: a.T, C: make([]*Term, len(a.C))}
	for i := range a.C {
		out.C[i] = Ite(c, a.C[i], b.C[i])
	}
	return out
}

// constant -> typed value
func constValue(k constant.Value, t types.Type) Value {
	if name, ok := isSpecType(t); ok && name == "Int" {
		if k.Kind() == constant.Int {
			bi, _ := new(big.Int).SetString(k.ExactString(), 10)
			if bi.Sign() < 0 {
				return Value{T: t, C: []*Term{Lit("(- "+new(big.Int).Neg(bi).String()+")", SInt)}, K: k}
			}
			return Value{T: t, C: []*Term{Lit(bi.String(), SInt)}, K: k}
		}
	}
	if name, ok := isSpecType(t); ok {
		if s, ok := specSort(name); ok && s.IsBV() && k.Kind() == constant.Int {
			bi, _ := new(big.Int).SetString(k.ExactString(), 10)
			return Value{T: t, C: []*Term{BVLit(bi, s.BVWidth())}, K: k}
		}
	}
	b, ok := t.Underlying().(*types.Basic)
	if !ok {
		panic(fmt.Sprintf("constValue: non-basic type %v", t))
	}
	switch {
	case b.Info()&types.IsBoolean != 0:
		if constant.BoolVal(k) {
			return Value{T: t, C: []*Term{TTrue}, K: k}
		}
		return Value{T: t, C: []*Term{TFalse}, K: k}
	case b.Info()&types.IsInteger != 0:
		w, _ := intWidth(b)
		ik := constant.ToInt(k)
		bi, ok := new(big.Int).SetString(ik.ExactString(), 10)
		if !ok {
			panic("constValue: bad int constant " + k.ExactString())
		}
		return Value{T: t, C: []*Term{BVLit(bi, w)}, K: k}
	case b.Info()&types.IsString != 0:
		return Value{T: t, C: []*Term{strLit(constant.StringVal(k))}, K: k}
	case b.Info()&types.IsFloat != 0:
		return Value{T: t, C: []*Term{Lit(smtSym("flt!"+k.ExactString()), SFloat)}, K: k}
	}
	panic(fmt.Sprintf("constValue: unsupported constant type %v", t))
}

// string literals are interned as distinct constants of sort Str
var strLits = map[string]string{}
var strLitOrder []string
var fltLits = map[string]bool{}

func strLit(s string) *Term {
	if s == "" {
		return Lit("str_empty", SStr)
	}
	name, ok := strLits[s]
	if !ok {
		name = fmt.Sprintf("strlit!%d", len(strLits))
		strLits[s] = name
		strLitOrder = append(strLitOrder, s)
	}
	return Lit(name, SStr)
}

// defaultType for untyped constants
func defaultConstType(k constant.Value) types.Type {
	switch k.Kind() {
	case constant.Bool:
		return tBool
	case constant.String:
		return tString
	case constant.Float:
		return types.Typ[types.Float64]
	}
	return tInt
}

func isUntyped(v Value) bool {
	if v.T == nil {
		return true
	}
	b, ok := v.T.(*types.Basic)
	return ok && b.Info()&types.IsUntyped != 0
}

// coerce an untyped constant value to type t
func coerce(v Value, t types.Type) Value {
	if !isUntyped(v) || v.K == nil {
		return v
	}
	if _, isIface := t.Underlying().(*types.Interface); isIface {
		return v
	}
	return constValue(v.K, t)
}

type evalErr struct{ msg string }

func (e evalErr) Error() string { return e.msg }

func fail(format string, args ...interface{}) {
	panic(evalErr{fmt.Sprintf(format, args...)})
}

func isMathInt(t types.Type) bool {
	n, ok := isSpecType(t)
	return ok && n == "Int"
}

// binop implements Go's binary operators on scalar values. divCheck is called with the
// "divisor != 0" term for / and %.
func binop(op token.Token, a, b Value, divCheck func(*Term)) Value {
	if a.K != nil && b.K != nil && isUntyped(a) && isUntyped(b) {
		switch op {
		case token.EQL, token.NEQ, token.LSS, token.LEQ, token.GTR, token.GEQ:
			r := constant.Compare(a.K, op, b.K)
			return constValue(constant.MakeBool(r), tBool)
		case token.SHL, token.SHR:
			s, _ := constant.Uint64Val(b.K)
			return Value{T: a.T, K: constant.Shift(a.K, op, uint(s))}
		case token.LAND, token.LOR:
			return Value{T: a.T, K: constant.BinaryOp(a.K, op, b.K)}
		case token.QUO:
			if a.K.Kind() == constant.Int && b.K.Kind() == constant.Int {
				return Value{T: a.T, K: constant.BinaryOp(a.K, token.QUO_ASSIGN, b.K)}
			}
		}
		return Value{T: a.T, K: constant.BinaryOp(a.K, op, b.K)}
	}
	if op != token.SHL && op != token.SHR {
		if isUntyped(a) && !isUntyped(b) {
			a = coerce(a, b.T)
		} else if isUntyped(b) && !isUntyped(a) {
			b = coerce(b, a.T)
		}
	} else {
		if isUntyped(a) {
			a = coerce(a, tInt)
		}
		if isUntyped(b) {
			b = coerce(b, tUint64)
		}
	}
	if isUntyped(a) {
		a = coerce(a, defaultConstType(a.K))
	}
	if isUntyped(b) {
		b = coerce(b, defaultConstType(b.K))
	}
	rt := a.T
	switch op {
	case token.EQL:
		return boolVal(eqValue(a, b))
	case token.NEQ:
		return boolVal(Not(eqValue(a, b)))
	}
	x, y := a.S(), b.S()
	switch {
	case x.Sort == SBool:
		switch op {
		case token.LAND:
			return boolVal(And(x, y))
		case token.LOR:
			return boolVal(Or(x, y))
		}
	case x.Sort == SInt:
		switch op {
		case token.ADD:
			return scalar(rt, App("+", SInt, x, y))
		case token.SUB:
			return scalar(rt, App("-", SInt, x, y))
		case token.MUL:
			return scalar(rt, App("*", SInt, x, y))
		case token.QUO:
			return scalar(rt, App("div", SInt, x, y))
		case token.REM:
			return scalar(rt, App("mod", SInt, x, y))
		case token.LSS:
			return boolVal(App("<", SBool, x, y))
		case token.LEQ:
			return boolVal(App("<=", SBool, x, y))
		case token.GTR:
			return boolVal(App(">", SBool, x, y))
		case token.GEQ:
			return boolVal(App(">=", SBool, x, y))
		}
	case x.Sort.IsBV():
		signed := isSigned(a.T)
		w := x.Sort.BVWidth()
		if op == token.SHL || op == token.SHR {
			yw := y.Sort.BVWidth()
			W := w
			if yw > W {
				W = yw
			}
			xe := Resize(x, W, signed)
			ye := Resize(y, W, false)
			var r *Term
			switch {
			case op == token.SHL:
				r = bvbin("bvshl", xe, ye)
			case signed:
				r = bvbin("bvashr", xe, ye)
			default:
				r = bvbin("bvlshr", xe, ye)
			}
			return scalar(rt, Resize(r, w, false))
		}
		if y.Sort != x.Sort {
			fail("binary %s on different widths: %v vs %v", op, a.T, b.T)
		}
		switch op {
		case token.ADD:
			return scalar(rt, bvbin("bvadd", x, y))
		case token.SUB:
			return scalar(rt, bvbin("bvsub", x, y))
		case token.MUL:
			return scalar(rt, bvbin("bvmul", x, y))
		case token.QUO:
			if divCheck != nil {
				divCheck(Not(Eq(y, BVInt(0, w))))
			}
			if signed {
				return scalar(rt, bvbin("bvsdiv", x, y))
			}
			return scalar(rt, bvbin("bvudiv", x, y))
		case token.REM:
			if divCheck != nil {
				divCheck(Not(Eq(y, BVInt(0, w))))
			}
			if signed {
				return scalar(rt, bvbin("bvsrem", x, y))
			}
			return scalar(rt, bvbin("bvurem", x, y))
		case token.AND:
			return scalar(rt, bvbin("bvand", x, y))
		case token.OR:
			return scalar(rt, bvbin("bvor", x, y))
		case token.XOR:
			return scalar(rt, bvbin("bvxor", x, y))
		case token.AND_NOT:
			return scalar(rt, bvbin("bvand", x, mk("bvnot", y.Sort, y)))
		case token.LSS, token.LEQ, token.GTR, token.GEQ:
			pre := "bvu"
			if signed {
				pre = "bvs"
			}
			suf := map[token.Token]string{token.LSS: "lt", token.LEQ: "le", token.GTR: "gt", token.GEQ: "ge"}[op]
			return boolVal(bvcmp(pre+suf, x, y))
		}
	case x.Sort == SStr:
		switch op {
		case token.ADD:
			return scalar(rt, App("str_cat", SStr, x, y))
		case token.LSS:
			return boolVal(App("str_lt", SBool, x, y))
		case token.GTR:
			return boolVal(App("str_lt", SBool, y, x))
		case token.LEQ:
			return boolVal(Not(App("str_lt", SBool, y, x)))
		case token.GEQ:
			return boolVal(Not(App("str_lt", SBool, x, y)))
		}
	case x.Sort == SFloat:
		switch op {
		case token.ADD, token.SUB, token.MUL, token.QUO:
			return scalar(rt, App("flt_"+map[token.Token]string{token.ADD: "add", token.SUB: "sub", token.MUL: "mul", token.QUO: "div"}[op], SFloat, x, y))
		case token.LSS:
			return boolVal(App("flt_lt", SBool, x, y))
		case token.GTR:
			return boolVal(App("flt_lt", SBool, y, x))
		case token.LEQ:
			return boolVal(App("flt_le", SBool, x, y))
		case token.GEQ:
			return boolVal(App("flt_le", SBool, y, x))
		}
	}
	fail("unsupported binary op %s on %v (%s)", op, a.T, x.Sort)
	return Value{}
}

// eqValue: Go's == on comparable values (componentwise); slices/maps/funcs only vs nil.
func eqValue(a, b Value) *Term {
	if isUntyped(a) && !isUntyped(b) {
		a = coerce(a, b.T)
	} else if isUntyped(b) && !isUntyped(a) {
		b = coerce(b, a.T)
	}
	if a.C == nil && a.K != nil {
		a = coerce(a, defaultConstType(a.K))
	}
	if b.C == nil && b.K != nil {
		b = coerce(b, defaultConstType(b.K))
	}
	// slice vs nil
	if _, ok := a.T.Underlying().(*types.Slice); ok && len(a.C) == 4 {
		if len(b.C) == 4 {
			// both slices: only nil comparison is legal Go; spec equality means same view
			return And(Eq(a.C[0], b.C[0]), Eq(a.C[1], b.C[1]), Eq(a.C[2], b.C[2]))
		}
		return Eq(a.C[0], BVInt(0, 64))
	}
	if _, ok := b.T.Underlying().(*types.Slice); ok && len(b.C) == 4 {
		return Eq(b.C[0], BVInt(0, 64))
	}
	if len(a.C) != len(b.C) {
		fail("== on different shapes: %v vs %v", a.T, b.T)
	}
	var cs []*Term
	for i := range a.C {
		if a.C[i].Sort != b.C[i].Sort {
			fail("== component sort mismatch %v vs %v", a.T, b.T)
		}
		cs = append(cs, Eq(a.C[i], b.C[i]))
	}
	return And(cs...)
}

func isNilConst(v Value) bool {
	if v.T == nil {
		return false
	}
	b, ok := v.T.(*types.Basic)
	return ok && b.Kind() == types.UntypedNil
}

// convertValue implements Go conversion T(v) for the supported cases.
func convertValue(v Value, t types.Type) Value {
	if isNilConst(v) {
		return zeroValue(t)
	}
	if isUntyped(v) && v.K != nil {
		if isMathInt(t) {
			return constValue(v.K, t)
		}
		if b, ok := t.Underlying().(*types.Basic); ok {
			if b.Info()&types.IsString != 0 && v.K.Kind() == constant.Int {
				fail("string(rune) conversion unsupported")
			}
			if b.Info()&types.IsInteger != 0 && v.K.Kind() == constant.Float {
				return constValue(constant.ToInt(v.K), t)
			}
			return constValue(v.K, t)
		}
		if _, ok := t.Underlying().(*types.Interface); ok {
			v = coerce(v, defaultConstType(v.K))
		}
	}
	if types.Identical(v.T.Underlying(), t.Underlying()) {
		return Value{T: t, C: v.C, K: v.K}
	}
	// pointer conversions between identical base types
	if _, ok := v.T.Underlying().(*types.Pointer); ok {
		if _, ok2 := t.Underlying().(*types.Pointer); ok2 {
			return Value{T: t, C: v.C}
		}
	}
	if isInteger(v.T) && isMathInt(t) {
		x := v.S()
		n := App("bv2nat", SInt, x)
		if isSigned(v.T) {
			w := x.Sort.BVWidth()
			neg := bvcmp("bvslt", x, BVInt(0, w))
			return scalar(t, Ite(neg, App("-", SInt, n, Lit(new(big.Int).Lsh(big.NewInt(1), uint(w)).String(), SInt)), n))
		}
		return scalar(t, n)
	}
	if name, ok := isSpecType(t); ok && len(v.C) == 1 && v.C[0].Sort.IsBV() {
		if s, ok := specSort(name); ok && s.IsBV() {
			return scalar(t, Resize(v.S(), s.BVWidth(), isSigned(v.T)))
		}
	}
	if isInteger(v.T) && isInteger(t) {
		return scalar(t, Resize(v.S(), widthOf(t), isSigned(v.T)))
	}
	if isInteger(v.T) {
		if b, ok := t.Underlying().(*types.Basic); ok && b.Info()&types.IsFloat != 0 {
			fn := "flt_of_u"
			if isSigned(v.T) {
				fn = "flt_of_s"
			}
			return scalar(t, App(fn, SFloat, Resize(v.S(), 64, isSigned(v.T))))
		}
	}
	if bv, ok := v.T.Underlying().(*types.Basic); ok && bv.Info()&types.IsFloat != 0 {
		if isInteger(t) {
			return scalar(t, Resize(App("flt_to_bv", SBV(64), v.S()), widthOf(t), false))
		}
		if bt, ok := t.Underlying().(*types.Basic); ok && bt.Info()&types.IsFloat != 0 {
			return scalar(t, v.S())
		}
	}
	if _, ok := t.Underlying().(*types.Interface); ok {
		// concrete -> interface: pointers keep their ref; handled by caller for tagging
		if len(v.C) == 1 && v.C[0].Sort == SRef {
			return Value{T: t, C: v.C}
		}
	}
	fail("unsupported conversion %v -> %v", v.T, t)
	return Value{}
}

// field selection on a struct value
func fieldOf(v Value, name string) Value {
	lo, hi, ft, ok := fieldRange(v.T, name)
	if !ok {
		fail("no field %s in %v", name, v.T)
	}
	return Value{T: ft, C: v.C[lo:hi]}
}

func withField(v Value, name string, fv Value) Value {
	lo, hi, _, ok := fieldRange(v.T, name)
	if !ok {
		fail("no field %s in %v", name, v.T)
	}
	if hi-lo != len(fv.C) {
		fail("field %s shape mismatch", name)
	}
	out := Value{T: v.T, C: append([]*Term{}, v.C...)}
	copy(out.C[lo:hi], fv.C)
	return out
}

// slice helpers
func sliceParts(v Value) (ref, off, ln, cp *Term) {
	if len(v.C) != 4 {
		fail("not a slice value: %v", v.T)
	}
	return v.C[0], v.C[1], v.C[2], v.C[3]
}

func mkSlice(t types.Type, ref, off, ln, cp *Term) Value {
	return Value{T: t, C: []*Term{ref, off, ln, cp}}
}

// packed byte array helpers: byte i of an N-byte array (byte 0 most significant)
func packedByte(arr *Term, n int, i int) *Term {
	hi := 8*(n-i) - 1
	return Extract(hi, hi-7, arr)
}

func packedByteSym(arr *Term, n int, idx *Term) *Term {
	// idx: BV64. shift right by 8*(n-1-idx) and take low byte
	w := 8 * n
	if v, ok := idx.litVal(); ok && v.IsInt64() && v.Int64() < int64(n) {
		return packedByte(arr, n, int(v.Int64()))
	}
	// shift amount computed in 64 bits ((n-1-idx)*8 as a shift by 3), then widened
	sh64 := bvbin("bvshl", bvbin("bvsub", BVInt(int64(n-1), 64), Resize(idx, 64, false)), BVInt(3, 64))
	sh := Resize(sh64, w, false)
	return Extract(7, 0, bvbin("bvlshr", arr, sh))
}

func packedSetByteSym(arr *Term, n int, idx *Term, b *Term) *Term {
	w := 8 * n
	if v, ok := idx.litVal(); ok && v.IsInt64() && v.Int64() < int64(n) {
		i := int(v.Int64())
		var parts []*Term
		if i > 0 {
			parts = append(parts, Extract(w-1, w-8*i, arr))
		}
		parts = append(parts, b)
		if i < n-1 {
			parts = append(parts, Extract(8*(n-1-i)-1, 0, arr))
		}
		r := parts[0]
		for _, p := range parts[1:] {
			r = Concat(r, p)
		}
		return r
	}
	sh64 := bvbin("bvshl", bvbin("bvsub", BVInt(int64(n-1), 64), Resize(idx, 64, false)), BVInt(3, 64))
	sh := Resize(sh64, w, false)
	mask := bvbin("bvshl", BVInt(0xff, w), sh)
	cleared := bvbin("bvand", arr, mk("bvnot", arr.Sort, mask))
	return bvbin("bvor", cleared, bvbin("bvshl", Resize(b, w, false), sh))
}
