package main

import (
	"encoding/json"
	"flag"
	"fmt"
	"os"
	"path/filepath"
	"regexp"
	"sort"
	"strconv"
	"strings"
	"time"
)

type KnownFinding struct {
	Property   string `json:"property"`
	Obligation string `json:"obligation"`
	What       string `json:"what"`
}

type KnownFile struct {
	Findings []KnownFinding `json:"findings"`
	Fixed    []string       `json:"fixed"`
}

// obligations checked per return site carry an @retN suffix; known findings are keyed without it
var reRetSuffix = regexp.MustCompile(`@ret\d+|/\d+$`)

func loadKnown(verif string) KnownFile {
	var kf KnownFile
	data, err := os.ReadFile(filepath.Join(verif, "known_findings.json"))
	if err == nil {
		_ = json.Unmarshal(data, &kf)
	}
	return kf
}

func main() {
	if len(os.Args) < 2 {
		fmt.Fprintln(os.Stderr, "usage: gocv check|func|dump|list ...")
		os.Exit(2)
	}
	switch os.Args[1] {
	case "check":
		os.Exit(cmdCheck(os.Args[2:]))
	case "func":
		os.Exit(cmdFunc(os.Args[2:]))
	case "replay":
		os.Exit(cmdReplay(os.Args[2:]))
	case "list":
		os.Exit(cmdList(os.Args[2:]))
	default:
		fmt.Fprintln(os.Stderr, "unknown command", os.Args[1])
		os.Exit(2)
	}
}

func pkgOfKey(key string) string {
	// "(*path.T).M" | "(path.T).M" | "path.F"
	k := strings.TrimPrefix(key, "(")
	k = strings.TrimPrefix(k, "*")
	if i := strings.Index(k, ")"); i >= 0 {
		k = k[:i]
	}
	// strip last .Name
	if i := strings.LastIndex(k, "."); i >= 0 {
		return k[:i]
	}
	return k
}

type runOpts struct {
	repo, verif string
	secs        int
	tier        string
	par         int
	all         bool
	verbose     bool
}

// verifyProps verifies every function tagged with one of props; returns contexts and errors.
func verifyFuncs(prog *Program, specs []*FuncSpec) ([]*Ctx, map[string]error) {
	var ctxs []*Ctx
	errs := map[string]error{}
	for _, sp := range specs {
		fi, ok := prog.funcs[sp.Key]
		if !ok {
			errs[sp.Key] = fmt.Errorf("contract %s (%s:%d) does not match any function", sp.Key, sp.File, sp.Line)
			continue
		}
		c, err := prog.verifyFunc(fi, sp)
		if err != nil {
			errs[sp.Key] = err
			continue
		}
		ctxs = append(ctxs, c)
	}
	return ctxs, errs
}

func selectSpecs(cs *Contracts, props map[string]bool, nameFilter string) []*FuncSpec {
	var out []*FuncSpec
	for _, sp := range cs.Funcs {
		if sp.Extern || sp.Trusted || sp.Skip {
			continue
		}
		if nameFilter != "" {
			if strings.Contains(sp.Key, nameFilter) {
				out = append(out, sp)
			}
			continue
		}
		for _, p := range sp.Props {
			if props[p] {
				out = append(out, sp)
				break
			}
		}
	}
	sort.Slice(out, func(i, j int) bool { return out[i].Key < out[j].Key })
	return out
}

var allContracts *Contracts

func pkgsOf(specs []*FuncSpec) []string {
	set := map[string]bool{}
	for _, sp := range specs {
		set[pkgOfKey(sp.Key)] = true
	}
	// callers execute the bodies of `inline` functions, so their packages need syntax too
	if allContracts != nil && len(specs) > 0 {
		for _, sp := range allContracts.Funcs {
			if sp.Inline && strings.HasPrefix(pkgOfKey(sp.Key), modulePath) {
				set[pkgOfKey(sp.Key)] = true
			}
		}
	}
	var out []string
	for p := range set {
		out = append(out, p)
	}
	sort.Strings(out)
	return out
}

func cmdList(args []string) int {
	fs := flag.NewFlagSet("list", flag.ExitOnError)
	repo := fs.String("repo", "/repo", "")
	verif := fs.String("verif", "/verif", "")
	fs.Parse(args)
	cs, err := loadContracts(*repo, *verif)
	if err != nil {
		fmt.Fprintln(os.Stderr, err)
		return 2
	}
	byProp := map[string][]string{}
	for _, sp := range cs.Funcs {
		for _, p := range sp.Props {
			byProp[p] = append(byProp[p], sp.Key)
		}
	}
	var ps []string
	for p := range byProp {
		ps = append(ps, p)
	}
	sort.Strings(ps)
	for _, p := range ps {
		sort.Strings(byProp[p])
		fmt.Printf("%s: %d functions\n", p, len(byProp[p]))
	}
	return 0
}

func cmdFunc(args []string) int {
	fs := flag.NewFlagSet("func", flag.ExitOnError)
	repo := fs.String("repo", "/repo", "")
	verif := fs.String("verif", "/verif", "")
	secs := fs.Int("timeout", 10, "")
	dump := fs.String("dump", "", "write the SMT query of obligations whose name contains this text to ./dump/")
	all := fs.Bool("all-solvers", false, "")
	verbose := fs.Bool("v", false, "")
	fs.Parse(args)
	if fs.NArg() < 1 {
		fmt.Fprintln(os.Stderr, "usage: gocv func <name substring>")
		return 2
	}
	cs, err := loadContracts(*repo, *verif)
	if err != nil {
		fmt.Fprintln(os.Stderr, err)
		return 2
	}
	specs := selectSpecs(cs, nil, fs.Arg(0))
	if len(specs) == 0 {
		fmt.Fprintln(os.Stderr, "no contract matches")
		return 2
	}
	t0 := time.Now()
	prog, err := loadProgram(*repo, cs, pkgsOf(specs), nil)
	if err != nil {
		fmt.Fprintln(os.Stderr, err)
		return 2
	}
	fmt.Printf("loaded in %.1fs\n", time.Since(t0).Seconds())
	ctxs, errs := verifyFuncs(prog, specs)
	for k, e := range errs {
		fmt.Printf("ERROR %s: %v\n", k, e)
	}
	work, _ := os.MkdirTemp("", "gocv")
	defer os.RemoveAll(work)
	if *dump != "" {
		os.MkdirAll("dump", 0755)
		for _, c := range ctxs {
			for _, o := range c.obls {
				if strings.Contains(o.Name, *dump) {
					os.WriteFile(filepath.Join("dump", sanitize(o.Name)+".smt2"), []byte(c.buildQuery(o, true)), 0644)
				}
			}
		}
	}
	dischargeAll(ctxs, work, *secs, *all, 8)
	bad := 0
	for _, c := range ctxs {
		n, ok := 0, 0
		for _, o := range c.obls {
			n++
			if o.discharged() {
				ok++
				if *verbose {
					fmt.Printf("  ok   %-60s %s %.2fs\n", o.Name, o.Solver, o.Secs)
				}
			} else {
				bad++
				fmt.Printf("  FAIL %-60s %s [%s] %s:%d %s\n", o.Name, o.Result, o.Solver, filepath.Base(o.Pos.Filename), o.Pos.Line, o.Detail)
				if *verbose {
					fmt.Println(indent(firstLines(o.Model, 40)))
				}
			}
		}
		fmt.Printf("%s: %d/%d discharged\n", c.fnName, ok, n)
		if *verbose {
			for _, nn := range c.notes {
				fmt.Println("  note:", nn)
			}
		}
	}
	if bad > 0 || len(errs) > 0 {
		return 1
	}
	return 0
}

func indent(s string) string { return "      " + strings.ReplaceAll(s, " | ", "\n      ") }

// ---------------------------------------------------------------------------------------

type Evidence struct {
	PropertyID  string                 `json:"property_id"`
	Tier        string                 `json:"tier"`
	Seed        int                    `json:"seed"`
	Level       string                 `json:"level"`
	Coverage    map[string]interface{} `json:"coverage"`
	Assumptions []string               `json:"assumptions"`
	WallS       float64                `json:"wall_s"`
	Violations  int                    `json:"violations"`
}

func cmdCheck(args []string) int {
	fs := flag.NewFlagSet("check", flag.ExitOnError)
	repo := fs.String("repo", "/repo", "")
	verif := fs.String("verif", "/verif", "")
	tier := fs.String("tier", "quick", "")
	propsArg := fs.String("props", "", "comma separated property ids")
	fs.Parse(args)
	if *propsArg == "" && fs.NArg() > 0 {
		*propsArg = fs.Arg(0)
	}
	if t := os.Getenv("VERIF_TIER"); t != "" && *tier == "" {
		*tier = t
	}
	seed, _ := strconv.Atoi(os.Getenv("VERIF_SEED"))
	props := map[string]bool{}
	var propList []string
	for _, p := range strings.Split(*propsArg, ",") {
		if p = strings.TrimSpace(p); p != "" {
			props[p] = true
			propList = append(propList, p)
		}
	}
	t0 := time.Now()
	cs, err := loadContracts(*repo, *verif)
	if err != nil {
		fmt.Fprintln(os.Stderr, "contract error:", err)
		return reportBroken(*verif, propList, *tier, seed, "contract files do not parse: "+err.Error(), t0)
	}
	specs := selectSpecs(cs, props, "")
	secs := 20
	requireAll := false
	if *tier == "thorough" {
		secs = 120
		requireAll = true
	}
	prog, err := loadProgram(*repo, cs, pkgsOf(specs), nil)
	if err != nil {
		fmt.Fprintln(os.Stderr, "load error:", err)
		return reportBroken(*verif, propList, *tier, seed, "packages do not load: "+err.Error(), t0)
	}
	ctxs, errs := verifyFuncs(prog, specs)
	lemmaCtxs := prog.lemmaObligations(props)
	ctxs = append(ctxs, lemmaCtxs...)
	if props["C17"] {
		// storage-key templates: extracted from every ConcatKey call of the code base on every run
		keyCtxs, err := prog.keyObligations(*repo, *verif)
		if err != nil {
			fmt.Fprintln(os.Stderr, "key extraction error:", err)
			return reportBroken(*verif, []string{"C17"}, *tier, seed, "key templates could not be extracted: "+err.Error(), t0)
		}
		ctxs = append(ctxs, keyCtxs...)
	}
	work, _ := os.MkdirTemp("", "gocv")
	defer os.RemoveAll(work)
	dischargeAll(ctxs, work, secs, requireAll, 10)
	known := loadKnown(*verif)
	floors := loadFloors(*verif)
	exit := 0
	for _, p := range propList {
		if reportProperty(prog, p, *tier, seed, *verif, ctxs, errs, specs, known, floors, t0, secs) {
			exit = 1
		}
	}
	return exit
}

func loadFloors(verif string) map[string]int {
	m := map[string]int{}
	data, err := os.ReadFile(filepath.Join(verif, "floors.json"))
	if err == nil {
		_ = json.Unmarshal(data, &m)
	}
	return m
}

func hasProp(ps []string, p string) bool {
	for _, q := range ps {
		if q == p {
			return true
		}
	}
	return false
}

func reportBroken(verif string, props []string, tier string, seed int, why string, t0 time.Time) int {
	for _, p := range props {
		rp := filepath.Join(verif, "replays", p+"-engine.json")
		os.MkdirAll(filepath.Dir(rp), 0755)
		data, _ := json.MarshalIndent(map[string]interface{}{"property": p, "obligation": "engine:load", "reason": why}, "", " ")
		os.WriteFile(rp, data, 0644)
		fmt.Printf("VIOLATION property=%s replay=%s no-failing-input-found\n", p, rp)
		ev := Evidence{PropertyID: p, Tier: tier, Seed: seed, Level: "proof", WallS: time.Since(t0).Seconds(), Violations: 1,
			Coverage: map[string]interface{}{"obligations": 1, "discharged": 0, "checker_cmd": "gocv check", "trusted_base": []string{}, "explanation": why}}
		writeEvidence(verif, p, ev)
	}
	return 1
}

func writeEvidence(verif, p string, ev Evidence) {
	dir := filepath.Join(verif, "evidence")
	if d := os.Getenv("VERIF_EVIDENCE_DIR"); d != "" {
		dir = d // self-test runs on mutated trees must not overwrite the real evidence
	}
	os.MkdirAll(dir, 0755)
	data, _ := json.MarshalIndent(ev, "", " ")
	os.WriteFile(filepath.Join(dir, p+".json"), data, 0644)
}

// reportProperty prints the verdict lines of one property and writes its evidence; true = violation.
func reportProperty(prog *Program, p, tier string, seed int, verif string, ctxs []*Ctx, errs map[string]error, specs []*FuncSpec,
	known KnownFile, floors map[string]int, t0 time.Time, secs int) bool {
	var obls []*Obligation
	var fnNames []string
	assumptions := map[string]bool{}
	notes := map[string]bool{}
	backends := map[string]int{}
	solverTime := 0.0
	for _, c := range ctxs {
		if !hasProp(c.props, p) {
			continue
		}
		fnNames = append(fnNames, c.fnName)
		for _, o := range c.obls {
			obls = append(obls, o)
			backends[o.Solver]++
			solverTime += o.Secs
		}
		for a := range c.assumed {
			assumptions[a] = true
		}
		for _, n := range c.notes {
			notes[c.fnName+": "+n] = true
		}
	}
	sort.Strings(fnNames)
	violation := false
	nviol := 0
	nReplays := 0
	var replaySpent time.Duration
	var failing []string
	replayDir := filepath.Join(verif, "replays")
	if d := os.Getenv("VERIF_REPLAY_DIR"); d != "" {
		replayDir = d // self-test and seeded-change runs keep their replay files out of /verif/replays
	}
	os.MkdirAll(replayDir, 0755)
	emit := func(name, why, detail string, o *Obligation) {
		for _, k := range known.Findings {
			if k.Property == p && (k.Obligation == name || k.Obligation == reRetSuffix.ReplaceAllString(name, "")) {
				fmt.Printf("KNOWN-FINDING: property=%s %s %s\n", p, name, k.What)
				return
			}
		}
		violation = true
		nviol++
		rp := filepath.Join(replayDir, p+"-"+sanitize(name)+".json")
		rec := map[string]interface{}{"property": p, "obligation": name, "reason": why, "detail": detail}
		suffix := " no-failing-input-found"
		if o != nil {
			rec["position"] = fmt.Sprintf("%s:%d", o.Pos.Filename, o.Pos.Line)
			rec["solver_result"] = o.Result
			rec["solver"] = o.Solver
			rec["solver_output"] = truncate(o.Model, 20000)
			rec["clause"] = o.Detail
			if o.Result == "sat" && os.Getenv("VERIF_NO_REPLAY") == "" {
				// replaying means generating, compiling and running a Go test: a change that fails dozens of
				// obligations must not keep the check busy for an hour, so only the first few refutations are
				// replayed (the others keep their model in the replay file and are reported without a replay)
				if nReplays < 4 && replaySpent < 6*time.Minute {
					t1 := time.Now()
					nReplays++
					if rr := tryReplay(prog, o, verif); rr != nil {
						rec["replay"] = rr
						if rr.Confirmed {
							suffix = ""
						}
					}
					replaySpent += time.Since(t1)
				} else {
					rec["replay_skipped"] = "replay budget of this run used up (4 replays / 6 minutes); the model above is the solver's counterexample"
				}
			}
		}
		data, _ := json.MarshalIndent(rec, "", " ")
		os.WriteFile(rp, data, 0644)
		fmt.Printf("VIOLATION property=%s replay=%s%s\n", p, rp, suffix)
		failing = append(failing, name)
	}
	for _, sp := range specs {
		if !hasProp(sp.Props, p) {
			continue
		}
		if e, ok := errs[sp.Key]; ok {
			emit(shortFuncName(sp.Key)+"/engine", "obligations could not be generated for this function", e.Error(), nil)
		}
	}
	discharged := 0
	bounded := 0
	for _, o := range obls {
		if o.Bounded {
			bounded++
		}
		if o.discharged() {
			discharged++
			continue
		}
		why := "obligation not discharged: solver answered " + o.Result
		if o.Cover {
			why = "reachability (vacuity) check failed: solver answered " + o.Result + " where sat is required"
		}
		emit(o.Name, why, o.Detail, o)
	}
	if fl, ok := floors[p]; ok && len(obls) < fl {
		emit("engine/floor", fmt.Sprintf("only %d obligations generated, floor is %d", len(obls), fl), "", nil)
	}
	if len(obls) == 0 {
		emit("engine/empty", "no obligations generated for this property", "", nil)
	}
	// samples
	var samples []interface{}
	for i, o := range obls {
		if i%(len(obls)/8+1) == 0 {
			samples = append(samples, map[string]interface{}{"obligation": o.Name, "result": o.Result, "solver": o.Solver,
				"secs": round3(o.Secs), "smt_bytes": o.QueryLen, "at": fmt.Sprintf("%s:%d", filepath.Base(o.Pos.Filename), o.Pos.Line), "clause": o.Detail})
		}
	}
	// the obligations closest to the per-obligation time limit (margin against spurious timeouts)
	byTime := append([]*Obligation(nil), obls...)
	sort.SliceStable(byTime, func(i, j int) bool { return byTime[i].Secs > byTime[j].Secs })
	var slowest []interface{}
	for i, o := range byTime {
		if i >= 8 {
			break
		}
		slowest = append(slowest, map[string]interface{}{"obligation": o.Name, "solver": o.Solver, "secs": round3(o.Secs), "smt_bytes": o.QueryLen})
	}
	var as []string
	for a := range assumptions {
		as = append(as, a)
	}
	as = append(as, standingAssumptions...)
	sort.Strings(as)
	var ns []string
	for n := range notes {
		ns = append(ns, n)
	}
	sort.Strings(ns)
	kinds := map[string]int{}
	for _, o := range obls {
		k := o.Kind
		kinds[k]++
	}
	ev := Evidence{PropertyID: p, Tier: tier, Seed: seed, Level: "proof", Assumptions: as, WallS: round3(time.Since(t0).Seconds()), Violations: nviol,
		Coverage: map[string]interface{}{
			"obligations":           len(obls),
			"discharged":            discharged,
			"checker_cmd":           fmt.Sprintf("gocv check --tier %s %s  (VCs from go/ast+go/types of /repo working tree; z3-new 5.1.0, cvc5 1.0.x, z3 4.8.12 raced, %ds per obligation)", tier, p, secs),
			"trusted_base":          trustedBase,
			"functions_under_contract": fnNames,
			"obligation_kinds":      kinds,
			"back_ends":             backends,
			"solver_time_s":         round3(solverTime),
			"bounded_obligations":   bounded,
			"failing":               failing,
			"samples":               samples,
			"slowest":               slowest,
			"notes":                 ns,
		}}
	writeEvidence(verif, p, ev)
	if !violation {
		fmt.Printf("OK property=%s obligations=%d discharged=%d functions=%d wall=%.1fs\n", p, len(obls), discharged, len(fnNames), time.Since(t0).Seconds())
	}
	return violation
}

func round3(f float64) float64 { return float64(int(f*1000)) / 1000 }

func truncate(s string, n int) string {
	if len(s) > n {
		return s[:n] + "...[truncated]"
	}
	return s
}

var trustedBase = []string{
	"gocv VC generator (this repository: /verif/gocv) and its Go semantics (DESIGN.md 2.3)",
	"SMT solvers z3 5.1.0, cvc5 1.0.x, z3 4.8.12",
	"go/parser and go/types of go1.23.5",
}

var standingAssumptions = []string{
	"machine integers are exact bit-vectors of their Go width; no mathematical-integer abstraction in code VCs",
	"no slice is longer than 2^40 elements (allocation beyond that cannot succeed on the target)",
	"log.* calls and the text of error messages are not modelled",
	"a callee does not assign package-level variables of other packages and reaches storage only through its arguments",
	"termination is proved only where a decreases clause is given (partial correctness otherwise)",
}
