package main

// Go type -> flat list of SMT components. A symbolic Go value is its type plus one
// term per component (see DESIGN 2.3). Heaps are one SMT array per component.

import (
	"fmt"
	"go/types"
	"regexp"
	"strings"
)

type Comp struct {
	Path string // "" for scalars; ".f.g" for struct leaves; ".ref/.off/.len/.cap" for slices
	Sort Sort
	T    types.Type // Go type of the leaf (slice parts: the slice type)
}

type Layout struct {
	Comps []Comp
}

var layoutCache = map[string]*Layout{}

// spec-only types are named types in the fake package "spec".
var specPkg = types.NewPackage("spec", "spec")

func specType(name string) types.Type {
	if t, ok := specTypes[name]; ok {
		return t
	}
	tn := types.NewTypeName(0, specPkg, name, nil)
	t := types.NewNamed(tn, types.NewStruct(nil, nil), nil)
	specTypes[name] = t
	return t
}

var specTypes = map[string]types.Type{}

func isSpecType(t types.Type) (string, bool) {
	if n, ok := t.(*types.Named); ok && n.Obj().Pkg() == specPkg {
		return n.Obj().Name(), true
	}
	return "", false
}

var reByte = regexp.MustCompile(`\bbyte\b`)
var reRune = regexp.MustCompile(`\brune\b`)
var typeKeyCache = map[types.Type]string{}

// typeKey: canonical name of a type (aliases byte/rune resolved), used to name heaps.
func typeKey(t types.Type) string {
	if k, ok := typeKeyCache[t]; ok {
		return k
	}
	s := types.TypeString(t, func(p *types.Package) string { return p.Path() })
	if strings.Contains(s, "byte") {
		s = reByte.ReplaceAllString(s, "uint8")
	}
	if strings.Contains(s, "rune") {
		s = reRune.ReplaceAllString(s, "int32")
	}
	typeKeyCache[t] = s
	return s
}

func intWidth(b *types.Basic) (int, bool) {
	switch b.Kind() {
	case types.Int8:
		return 8, true
	case types.Uint8:
		return 8, false
	case types.Int16:
		return 16, true
	case types.Uint16:
		return 16, false
	case types.Int32:
		return 32, true
	case types.Uint32:
		return 32, false
	case types.Int64, types.Int, types.UntypedInt, types.UntypedRune:
		return 64, true
	case types.Uint64, types.Uint, types.Uintptr:
		return 64, false
	}
	return 0, false
}

func isInteger(t types.Type) bool {
	b, ok := t.Underlying().(*types.Basic)
	return ok && b.Info()&types.IsInteger != 0
}

func isSigned(t types.Type) bool {
	b, ok := t.Underlying().(*types.Basic)
	if !ok {
		return false
	}
	_, s := intWidth(b)
	return s
}

func widthOf(t types.Type) int {
	b, ok := t.Underlying().(*types.Basic)
	if !ok {
		return 0
	}
	w, _ := intWidth(b)
	return w
}

// byteArrayLen: [N]byte with N<=64 is packed into one bit-vector (byte 0 most significant).
func byteArrayLen(t types.Type) (int, bool) {
	a, ok := t.Underlying().(*types.Array)
	if !ok {
		return 0, false
	}
	b, ok := a.Elem().Underlying().(*types.Basic)
	if !ok || b.Kind() != types.Uint8 {
		return 0, false
	}
	if a.Len() < 1 || a.Len() > 64 {
		return 0, false
	}
	return int(a.Len()), true
}

func layoutOf(t types.Type) *Layout {
	key := typeKey(t)
	if l, ok := layoutCache[key]; ok {
		return l
	}
	l := &Layout{}
	layoutCache[key] = l // break recursion (pointers stop it anyway)
	l.Comps = flatten(t, "")
	return l
}

func specSort(name string) (Sort, bool) {
	switch name {
	case "Bytes":
		return SBytes, true
	case "Int":
		return SInt, true
	case "Key", "KeyT":
		return "KeyT", true
	case "OptBytes":
		return "OptBytes", true
	case "Store":
		return SArr("KeyT", "OptBytes"), true
	case "U128":
		return SBV(128), true
	case "U256":
		return SBV(256), true
	case "U512":
		return SBV(512), true
	}
	if strings.HasPrefix(name, "Set_") || strings.HasPrefix(name, "Map_") || strings.HasPrefix(name, "Arr_") {
		if s, ok := specSortReg[name]; ok {
			return s, true
		}
	}
	if s, ok := specSortReg[name]; ok {
		return s, true
	}
	return "", false
}

var specSortReg = map[string]Sort{}

func flatten(t types.Type, prefix string) []Comp {
	if name, ok := isSpecType(t); ok {
		s, ok := specSort(name)
		if !ok {
			panic("unknown spec type " + name)
		}
		return []Comp{{prefix, s, t}}
	}
	switch u := t.Underlying().(type) {
	case *types.Basic:
		switch {
		case u.Info()&types.IsBoolean != 0:
			return []Comp{{prefix, SBool, t}}
		case u.Info()&types.IsInteger != 0:
			w, _ := intWidth(u)
			return []Comp{{prefix, SBV(w), t}}
		case u.Info()&types.IsString != 0:
			return []Comp{{prefix, SStr, t}}
		case u.Info()&types.IsFloat != 0:
			return []Comp{{prefix, SFloat, t}}
		case u.Kind() == types.UnsafePointer:
			return []Comp{{prefix, SRef, t}}
		case u.Kind() == types.UntypedNil:
			return []Comp{{prefix, SRef, t}}
		}
		panic("unsupported basic type " + t.String())
	case *types.Pointer, *types.Map, *types.Chan, *types.Signature, *types.Interface:
		return []Comp{{prefix, SRef, t}}
	case *types.Slice:
		return []Comp{{prefix + ".ref", SRef, t}, {prefix + ".off", SBV(64), t}, {prefix + ".len", SBV(64), t}, {prefix + ".cap", SBV(64), t}}
	case *types.Array:
		if n, ok := byteArrayLen(t); ok {
			return []Comp{{prefix, SBV(8 * n), t}}
		}
		el := layoutOf(u.Elem())
		if len(el.Comps) != 1 {
			// array of composite: one SMT array per element component
			var out []Comp
			for _, c := range el.Comps {
				out = append(out, Comp{prefix + "[]" + c.Path, SArr(SBV(64), c.Sort), t})
			}
			return out
		}
		return []Comp{{prefix, SArr(SBV(64), el.Comps[0].Sort), t}}
	case *types.Struct:
		var out []Comp
		for i := 0; i < u.NumFields(); i++ {
			f := u.Field(i)
			out = append(out, flatten(f.Type(), prefix+"."+f.Name())...)
		}
		if len(out) == 0 {
			// empty struct: one dummy component so values are never zero-width
			out = []Comp{{prefix + ".$unit", SBool, t}}
		}
		return out
	case *types.Tuple:
		var out []Comp
		for i := 0; i < u.Len(); i++ {
			out = append(out, flatten(u.At(i).Type(), fmt.Sprintf("%s.$%d", prefix, i))...)
		}
		return out
	case *types.TypeParam:
		return []Comp{{prefix, SRef, t}}
	}
	panic("unsupported type " + t.String())
}

// fieldRange returns the index range [lo,hi) of field name inside the layout of struct type st.
func fieldRange(st types.Type, name string) (int, int, types.Type, bool) {
	u, ok := st.Underlying().(*types.Struct)
	if !ok {
		return 0, 0, nil, false
	}
	idx := 0
	for i := 0; i < u.NumFields(); i++ {
		f := u.Field(i)
		n := len(layoutOf(f.Type()).Comps)
		if f.Name() == name {
			return idx, idx + n, f.Type(), true
		}
		idx += n
	}
	return 0, 0, nil, false
}

func smtSym(s string) string {
	ok := true
	for _, c := range s {
		if !(c >= 'a' && c <= 'z' || c >= 'A' && c <= 'Z' || c >= '0' && c <= '9' || c == '_' || c == '.' || c == '!' || c == '$' || c == '@') {
			ok = false
			break
		}
	}
	if ok && len(s) > 0 && !(s[0] >= '0' && s[0] <= '9') {
		return s
	}
	s = strings.ReplaceAll(s, "|", "!")
	s = strings.ReplaceAll(s, "\\", "!")
	return "|" + s + "|"
}

// zero value term for a sort
func zeroOf(s Sort) *Term {
	switch {
	case s == SBool:
		return TFalse
	case s.IsBV():
		return BVInt(0, s.BVWidth())
	case s == SStr:
		return Lit("str_empty", SStr)
	case s == SFloat:
		return Lit("flt_zero", SFloat)
	case s == SBytes:
		return Lit("bytes_empty", SBytes)
	case s == SInt:
		return Lit("0", SInt)
	case s.IsArr():
		_, v := s.ArrParts()
		return ConstArr(s, zeroOf(v))
	case s == "OptBytes":
		return Lit("None", "OptBytes")
	}
	panic("no zero for sort " + string(s))
}
