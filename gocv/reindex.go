package main

// Trigger hygiene for quantified facts. A contract clause such as
//     forall i :: i < n ==> s'[i] == s[i]
// translates to selects at index (off + i). Arithmetic inside a trigger is fragile (solvers
// normalise bvadd), so the bound variable is re-based: with q = off + i the fact becomes
//     forall q :: (q - off) < n ==> A'[q] == A[off0 + (q - off)]
// whose trigger A'[q] matches every read of the newer array. The change of variable is a
// bijection on 64-bit words, so the two formulas are equivalent.

type selCand struct {
	sel  *Term // the select term
	base *Term // t in (bvadd t q)
}

func findSelCands(t *Term, q *Term, out *[]selCand) {
	if !t.Bound {
		return
	}
	if t.Binder != "" {
		findSelCands(t.Args[0], q, out)
		return
	}
	if t.Op == "select" && len(t.Args) == 2 && !t.Args[0].Bound {
		idx := t.Args[1]
		if idx.Op == "bvadd" && len(idx.Args) == 2 {
			a, b := idx.Args[0], idx.Args[1]
			if len(b.Args) == 0 && b.Op == q.Op && b.Bound && !mentions(a, q.Op) {
				*out = append(*out, selCand{t, a})
			} else if len(a.Args) == 0 && a.Op == q.Op && a.Bound && !mentions(b, q.Op) {
				*out = append(*out, selCand{t, b})
			}
		} else if len(idx.Args) == 0 && idx.Op == q.Op && idx.Bound {
			*out = append(*out, selCand{t, nil})
		}
	}
	for _, a := range t.Args {
		findSelCands(a, q, out)
	}
}

// rebase substitutes q := q - base, mapping the chosen index term (base + q) back to q.
func rebase(t *Term, q *Term, base *Term, baseStr string) *Term {
	if !t.Bound {
		return t
	}
	if t.Binder != "" {
		nt := *t
		nt.Args = []*Term{rebase(t.Args[0], q, base, baseStr)}
		nt.Pats = nil
		for _, p := range t.Pats {
			nt.Pats = append(nt.Pats, rebase(p, q, base, baseStr))
		}
		return &nt
	}
	if t.Op == "bvadd" && len(t.Args) == 2 {
		a, b := t.Args[0], t.Args[1]
		if len(b.Args) == 0 && b.Op == q.Op && b.Bound && !a.Bound && (a == base || a.String() == baseStr) {
			return q
		}
		if len(a.Args) == 0 && a.Op == q.Op && a.Bound && !b.Bound && (b == base || b.String() == baseStr) {
			return q
		}
	}
	if len(t.Args) == 0 {
		if t.Op == q.Op {
			return bvbin("bvsub", q, base)
		}
		return t
	}
	args := make([]*Term, len(t.Args))
	changed := false
	for i, a := range t.Args {
		args[i] = rebase(a, q, base, baseStr)
		if args[i] != a {
			changed = true
		}
	}
	if !changed {
		return t
	}
	return rebuild(t.Op, t.Sort, args)
}

// reindexQuant handles the single-variable case (the dominant shape in the contracts).
func reindexQuant(vars []*Term, body *Term) (*Term, []*Term, bool) {
	if len(vars) != 1 {
		return nil, nil, false
	}
	q := vars[0]
	if !q.Sort.IsBV() {
		return nil, nil, false
	}
	var cands []selCand
	findSelCands(body, q, &cands)
	if len(cands) == 0 {
		return nil, nil, false
	}
	// prefer the select over the newest array (largest symbol id); ties: first
	best := cands[0]
	for _, c := range cands[1:] {
		if c.sel.Args[0].MaxSym > best.sel.Args[0].MaxSym {
			best = c
		}
	}
	if best.base == nil {
		return body, []*Term{best.sel}, true
	}
	if best.base.Bound {
		return nil, nil, false
	}
	nb := rebase(body, q, best.base, best.base.String())
	pat := Select(best.sel.Args[0], q)
	return nb, []*Term{pat}, true
}
