package main

// Evaluation of contract expressions. Value-driven typing (no go/types info for spec text).

import (
	"fmt"
	"go/ast"
	"go/constant"
	"go/parser"
	"go/token"
	"go/types"
	"sort"
	"strconv"
	"strings"
)

type SpecEnv struct {
	x      *X
	st     *State
	old    *State
	names  map[string]Value
	pkg    *types.Package
	frame  *Frame // for ghost locals and code locals (loop invariants)
	inOld  bool
	bound  []*Term
	bvars  map[string]bool
	pos    token.Pos
	oldNames map[string]Value
	guards map[string]bool // text of the conjuncts of enclosing `==>` antecedents (known true here)
}

func (e *SpecEnv) with(name string, v Value) *SpecEnv {
	n := *e
	n.names = make(map[string]Value, len(e.names)+1)
	for k, vv := range e.names {
		n.names[k] = vv
	}
	n.names[name] = v
	return &n
}

func (p *Program) resolveTypeText(text string, pkg *types.Package) (types.Type, error) {
	text = strings.TrimSpace(text)
	e, err := parser.ParseExpr(text)
	if err != nil {
		return nil, fmt.Errorf("bad type %q: %v", text, err)
	}
	return p.resolveTypeExpr(e, pkg)
}

func (p *Program) resolveTypeExpr(e ast.Expr, pkg *types.Package) (types.Type, error) {
	switch t := e.(type) {
	case *ast.Ident:
		if obj := types.Universe.Lookup(t.Name); obj != nil {
			if tn, ok := obj.(*types.TypeName); ok {
				return tn.Type(), nil
			}
		}
		if pkg != nil {
			if obj := pkg.Scope().Lookup(t.Name); obj != nil {
				if tn, ok := obj.(*types.TypeName); ok {
					return tn.Type(), nil
				}
			}
		}
		if _, ok := specSort(t.Name); ok {
			return specType(t.Name), nil
		}
		return nil, fmt.Errorf("unknown type %s", t.Name)
	case *ast.SelectorExpr:
		id, ok := t.X.(*ast.Ident)
		if !ok {
			return nil, fmt.Errorf("bad qualified type")
		}
		tp := p.findPkgByName(id.Name, pkg)
		if tp == nil {
			return nil, fmt.Errorf("unknown package %s", id.Name)
		}
		obj := tp.Scope().Lookup(t.Sel.Name)
		if tn, ok := obj.(*types.TypeName); ok {
			return tn.Type(), nil
		}
		return nil, fmt.Errorf("unknown type %s.%s", id.Name, t.Sel.Name)
	case *ast.StarExpr:
		el, err := p.resolveTypeExpr(t.X, pkg)
		if err != nil {
			return nil, err
		}
		return types.NewPointer(el), nil
	case *ast.ArrayType:
		el, err := p.resolveTypeExpr(t.Elt, pkg)
		if err != nil {
			return nil, err
		}
		if t.Len == nil {
			return types.NewSlice(el), nil
		}
		if bl, ok := t.Len.(*ast.BasicLit); ok {
			n, _ := strconv.Atoi(bl.Value)
			return types.NewArray(el, int64(n)), nil
		}
		return nil, fmt.Errorf("array length must be a literal")
	case *ast.MapType:
		k, err := p.resolveTypeExpr(t.Key, pkg)
		if err != nil {
			return nil, err
		}
		v, err := p.resolveTypeExpr(t.Value, pkg)
		if err != nil {
			return nil, err
		}
		return types.NewMap(k, v), nil
	case *ast.ParenExpr:
		return p.resolveTypeExpr(t.X, pkg)
	case *ast.InterfaceType:
		return types.NewInterfaceType(nil, nil), nil
	}
	return nil, fmt.Errorf("unsupported type syntax %T", e)
}

// findPkgByName resolves a package qualifier: imports of pkg by name first, then any loaded package.
func (p *Program) findPkgByName(name string, pkg *types.Package) *types.Package {
	if pkg != nil {
		// import aliases used by the package's own source files come first
		if path, ok := p.aliases[pkg.Path()][name]; ok {
			if tp, ok := p.allPkgs[path]; ok {
				return tp
			}
		}
		if pkg.Name() == name {
			return pkg
		}
		aliased := map[string]bool{}
		for _, path := range p.aliases[pkg.Path()] {
			aliased[path] = true
		}
		var fallback *types.Package
		for _, imp := range pkg.Imports() {
			if imp.Name() == name {
				if aliased[imp.Path()] {
					// imported under another name somewhere in this package: less likely the one meant
					if fallback == nil {
						fallback = imp
					}
					continue
				}
				return imp
			}
		}
		if fallback != nil {
			return fallback
		}
	}
	var found *types.Package
	for _, tp := range p.allPkgs {
		if tp.Name() == name {
			if found != nil && found != tp {
				// ambiguous: prefer in-repo
				if strings.HasPrefix(tp.Path(), modulePath) && !strings.HasPrefix(found.Path(), modulePath) {
					found = tp
				}
				continue
			}
			found = tp
		}
	}
	return found
}

func (x *X) specBool(env *SpecEnv, e *SpecExpr) *Term {
	v := x.specEval(env, e)
	if len(v.C) != 1 || v.C[0].Sort != SBool {
		if v.K != nil && v.K.Kind() == constant.Bool {
			if constant.BoolVal(v.K) {
				return TTrue
			}
			return TFalse
		}
		fail("spec expression %q is not boolean", e.Text)
	}
	return v.C[0]
}

func (x *X) specEval(env *SpecEnv, e *SpecExpr) Value {
	switch e.Kind {
	case "implies":
		l := x.specBool(env, e.L)
		// under the antecedent g, ite(g, a, b) is a: map reads `m[k]` guarded by has(m, k) lose their ite, which
		// would otherwise keep every term around them from serving as a quantifier pattern
		ne := *env
		ne.guards = make(map[string]bool, len(env.guards)+2)
		for k := range env.guards {
			ne.guards[k] = true
		}
		collectConjuncts(l, ne.guards)
		return boolVal(Implies(l, x.specBool(&ne, e.R)))
	case "iff":
		return boolVal(Eq(x.specBool(env, e.L), x.specBool(env, e.R)))
	case "forall", "exists":
		ne := *env
		ne.names = make(map[string]Value, len(env.names)+len(e.Binds))
		for k, v := range env.names {
			ne.names[k] = v
		}
		var vars []*Term
		var ranges []*Term
		ne.bvars = map[string]bool{}
		for k := range env.bvars {
			ne.bvars[k] = true
		}
		for _, b := range e.Binds {
			ne.bvars[b.Name] = true
			t, err := x.prog.resolveTypeText(b.Type, env.pkg)
			if err != nil {
				fail("%v", err)
			}
			l := layoutOf(t)
			if len(l.Comps) != 1 {
				fail("quantified variable %s must be scalar", b.Name)
			}
			x.qn++
			bv := BoundVar(fmt.Sprintf("%s_q%d", b.Name, x.qn), l.Comps[0].Sort)
			vars = append(vars, bv)
			ne.names[b.Name] = scalar(t, bv)
		}
		_ = ranges
		body := x.specBool(&ne, e.R)
		if nb, np, ok := reindexQuant(vars, body); ok {
			return boolVal(Quant(e.Kind, vars, nb, np))
		}
		var pats []*Term
		collectPatterns(body, vars, &pats, map[string]bool{})
		var usable []*Term
		for _, p := range pats {
			usable = append(usable, p)
		}
		// multi-pattern fallback: if no single term mentions all vars, try per-var patterns combined
		var patList []*Term
		if len(usable) > 0 {
			patList = usable
		} else if len(vars) > 1 {
			// one multi-pattern made of the smallest select/uf term per bound variable
			var parts []*Term
			okAll := true
			for _, v := range vars {
				var ps []*Term
				collectPatterns(body, []*Term{v}, &ps, map[string]bool{})
				if len(ps) == 0 {
					okAll = false
					break
				}
				best := ps[0]
				for _, p := range ps[1:] {
					if p.size < best.size {
						best = p
					}
				}
				dup := false
				for _, q := range parts {
					if q.String() == best.String() {
						dup = true
					}
				}
				if !dup {
					parts = append(parts, best)
				}
			}
			if okAll && len(parts) > 0 {
				patList = []*Term{mk("$multi", SBool, parts...)}
			}
		}
		return boolVal(Quant(e.Kind, vars, body, patList))
	}
	return x.specGo(env, e, e.Go)
}

func (x *X) specGo(env *SpecEnv, se *SpecExpr, e ast.Expr) Value {
	switch n := e.(type) {
	case *ast.ParenExpr:
		return x.specGo(env, se, n.X)
	case *ast.Ident:
		return x.specIdent(env, se, n)
	case *ast.BasicLit:
		switch n.Kind {
		case token.INT:
			return Value{T: types.Typ[types.UntypedInt], K: constant.MakeFromLiteral(n.Value, token.INT, 0)}
		case token.STRING:
			s, _ := strconv.Unquote(n.Value)
			return constValue(constant.MakeString(s), tString)
		case token.CHAR:
			return Value{T: types.Typ[types.UntypedRune], K: constant.MakeFromLiteral(n.Value, token.CHAR, 0)}
		}
		fail("unsupported literal %s", n.Value)
	case *ast.UnaryExpr:
		v := x.specGo(env, se, n.X)
		return unop(n.Op, v)
	case *ast.BinaryExpr:
		a := x.specGo(env, se, n.X)
		b := x.specGo(env, se, n.Y)
		if isNilConst(a) && !isNilConst(b) {
			a = zeroValue(b.T)
		} else if isNilConst(b) && !isNilConst(a) {
			b = zeroValue(a.T)
		}
		return binop(n.Op, a, b, nil)
	case *ast.StarExpr:
		v := x.specGo(env, se, n.X)
		pt, ok := v.T.Underlying().(*types.Pointer)
		if !ok {
			fail("spec: * on non-pointer")
		}
		return x.c.loadPtr(env.st, pt.Elem(), v.S())
	case *ast.SelectorExpr:
		if id, ok := n.X.(*ast.Ident); ok {
			if _, isName := env.lookupName(id.Name); !isName {
				if tp := x.prog.findPkgByName(id.Name, env.pkg); tp != nil {
					return x.pkgMember(env.st, tp, n.Sel.Name)
				}
			}
		}
		base := x.specGo(env, se, n.X)
		return x.selectField(env.st, base, n.Sel.Name)
	case *ast.IndexExpr:
		base := x.specGo(env, se, n.X)
		idx := x.specGo(env, se, n.Index)
		if mt, ok := base.T.Underlying().(*types.Map); ok && len(env.guards) > 0 && base.C != nil {
			// m[k] under an antecedent that contains has(m, k): the stored value itself, without the
			// `ite(has, value, zero)` of Go's map read (an ite inside a term keeps it from being a pattern)
			k := x.assignConv(env.st, x.typed(idx, mt.Key()), mt.Key())
			has, val := x.mapLoad(env.st, base, x.mapKeyTerm(k))
			if env.guards[has.String()] {
				return val
			}
		}
		return x.indexValue(env.st, base, idx, nil)
	case *ast.SliceExpr:
		base := x.specGo(env, se, n.X)
		var lo, hi *Value
		if n.Low != nil {
			v := x.specGo(env, se, n.Low)
			lo = &v
		}
		if n.High != nil {
			v := x.specGo(env, se, n.High)
			hi = &v
		}
		return x.sliceValue(env.st, base, lo, hi, nil, nil)
	case *ast.CallExpr:
		return x.specCall(env, se, n)
	}
	fail("unsupported spec expression %T in %q", e, se.Text)
	return Value{}
}

func unop(op token.Token, v Value) Value {
	switch op {
	case token.NOT:
		if v.K != nil && len(v.C) == 0 {
			return constValue(constant.MakeBool(!constant.BoolVal(v.K)), tBool)
		}
		return boolVal(Not(v.S()))
	case token.SUB:
		if isUntyped(v) && v.K != nil {
			return Value{T: v.T, K: constant.UnaryOp(token.SUB, v.K, 0)}
		}
		if v.S().Sort == SInt {
			return scalar(v.T, App("-", SInt, v.S()))
		}
		return scalar(v.T, mk("bvneg", v.S().Sort, v.S()))
	case token.XOR:
		if isUntyped(v) && v.K != nil {
			return Value{T: v.T, K: constant.UnaryOp(token.XOR, v.K, 0)}
		}
		return scalar(v.T, mk("bvnot", v.S().Sort, v.S()))
	case token.ADD:
		return v
	}
	fail("unsupported unary %s", op)
	return Value{}
}

func (env *SpecEnv) lookupName(name string) (Value, bool) {
	if v, ok := env.names[name]; ok {
		return v, true
	}
	if env.frame != nil {
		if obj, ok := env.frame.ghostVars[name]; ok {
			if v, ok := env.st.vars[obj]; ok {
				return v, true
			}
		}
		if obj := env.frame.lookupLocal(name, env.pos); obj != nil {
			if env.x != nil {
				if v, ok := env.x.readVar(env.st, obj); ok {
					return v, true
				}
			}
		}
	}
	return Value{}, false
}

func (x *X) specIdent(env *SpecEnv, se *SpecExpr, id *ast.Ident) Value {
	if sub, ok := se.Subs[id.Name]; ok {
		return x.specEval(env, sub)
	}
	switch id.Name {
	case "true":
		return constValue(constant.MakeBool(true), tBool)
	case "false":
		return constValue(constant.MakeBool(false), tBool)
	case "nil":
		return Value{T: types.Typ[types.UntypedNil]}
	case "Store":
		return scalar(specType("Store"), x.c.heap(env.st, "$g!Store", SArr("KeyT", "OptBytes")))
	case "None":
		return scalar(specType("OptBytes"), Lit("None", "OptBytes"))
	}
	if v, ok := env.lookupName(id.Name); ok {
		return v
	}
	if g, ok := x.prog.contracts.ghostGlobals[id.Name]; ok {
		t, err := x.prog.resolveTypeText(g, env.pkg)
		if err != nil {
			fail("%v", err)
		}
		l := layoutOf(t)
		return scalar(t, x.c.heap(env.st, "$g!"+id.Name, l.Comps[0].Sort))
	}
	if env.pkg != nil {
		if obj := env.pkg.Scope().Lookup(id.Name); obj != nil {
			return x.objValue(env.st, obj)
		}
	}
	if obj := types.Universe.Lookup(id.Name); obj != nil {
		if c, ok := obj.(*types.Const); ok {
			return Value{T: c.Type(), K: c.Val()}
		}
	}
	fail("spec: unknown identifier %q in %q", id.Name, se.Text)
	return Value{}
}

// objValue: value of a package-level object (const or var).
func (x *X) objValue(st *State, obj types.Object) Value {
	switch o := obj.(type) {
	case *types.Const:
		if isUntyped(Value{T: o.Type()}) {
			return Value{T: o.Type(), K: o.Val()}
		}
		return constValue(o.Val(), o.Type())
	case *types.Var:
		return x.readGlobal(st, o)
	}
	fail("spec: %s is not a value", obj.Name())
	return Value{}
}

func (x *X) pkgMember(st *State, tp *types.Package, name string) Value {
	obj := tp.Scope().Lookup(name)
	if obj == nil {
		fail("spec: %s.%s not found", tp.Name(), name)
	}
	return x.objValue(st, obj)
}

func (x *X) specCall(env *SpecEnv, se *SpecExpr, call *ast.CallExpr) Value {
	// type conversion?
	if t, err := x.prog.resolveTypeExpr(call.Fun, env.pkg); err == nil && len(call.Args) == 1 {
		if id, ok := call.Fun.(*ast.Ident); !ok || !x.isSpecFuncName(id.Name) {
			v := x.specGo(env, se, call.Args[0])
			return x.convert(env.st, v, t)
		}
	}
	name := ""
	switch f := call.Fun.(type) {
	case *ast.Ident:
		name = f.Name
	case *ast.SelectorExpr:
		// pkg.specfn(...): spec functions live in one global namespace; the qualifier is documentation
		if _, isPkg := f.X.(*ast.Ident); isPkg && x.isSpecFuncName(f.Sel.Name) {
			name = f.Sel.Name
			break
		}
		fail("spec: method calls are not supported in %q", se.Text)
	}
	arg := func(i int) Value { return x.specGo(env, se, call.Args[i]) }
	switch name {
	case "old":
		if env.old == nil {
			fail("old() not available here")
		}
		ne := *env
		ne.st = env.old
		ne.inOld = true
		if env.oldNames != nil {
			ne.names = make(map[string]Value, len(env.oldNames)+len(env.bvars))
			for k, v := range env.oldNames {
				ne.names[k] = v
			}
			for k := range env.bvars {
				ne.names[k] = env.names[k]
			}
		}
		return x.specGo(&ne, se, call.Args[0])
	case "at":
		// at(NAME, expr): expr evaluated in the state remembered by `snapshot NAME ...`
		id, ok := call.Args[0].(*ast.Ident)
		if !ok || len(call.Args) != 2 {
			fail("at(NAME, expr) expects a snapshot name in %q", se.Text)
		}
		if env.frame == nil || env.frame.snaps[id.Name] == nil {
			fail("at(%s, ...): no such snapshot taken before this point in %q", id.Name, se.Text)
		}
		ne := *env
		ne.st = env.frame.snaps[id.Name]
		return x.specGo(&ne, se, call.Args[1])
	case "len":
		v := arg(0)
		if len(v.C) == 1 && v.C[0].Sort == SBytes {
			// length of an abstract byte string
			return scalar(tInt, App("blen", SBV(64), v.C[0]))
		}
		return x.lenOf(env.st, v)
	case "cap":
		v := arg(0)
		_, _, _, cp := sliceParts(v)
		return scalar(tInt, cp)
	case "ite":
		c := arg(0)
		a, b := arg(1), arg(2)
		if isUntyped(a) && !isUntyped(b) {
			a = coerce(a, b.T)
		} else if isUntyped(b) && !isUntyped(a) {
			b = coerce(b, a.T)
		} else if isUntyped(a) && isUntyped(b) {
			a = coerce(a, defaultConstType(a.K))
			b = coerce(b, defaultConstType(b.K))
		}
		return iteValue(c.S(), a, b)
	case "bytes":
		// abstract content of a byte slice / byte array / string
		v := arg(0)
		return x.bytesOfValue(env.st, v)
	case "arr":
		v := arg(0)
		ref, _, _, _ := sliceParts(v)
		el := v.T.Underlying().(*types.Slice).Elem()
		l := layoutOf(el)
		if len(l.Comps) != 1 {
			fail("arr(): element type must be scalar")
		}
		inner := x.c.innerArr(env.st, el, 0, ref)
		return scalar(x.arrSpecType(inner.Sort), inner)
	case "off":
		v := arg(0)
		_, off, _, _ := sliceParts(v)
		return scalar(tUint64, off)
	case "packbytes":
		// packbytes(b, p, N): the N bytes of b starting at index p as a [N]byte value
		b, p := arg(0), arg(1)
		nv := arg(2)
		if nv.K == nil {
			fail("packbytes: length must be a constant")
		}
		n64, _ := constant.Int64Val(constant.ToInt(nv.K))
		var acc *Term
		for i := int64(0); i < n64; i++ {
			by := x.indexValue(env.st, b, scalar(tUint64, bvbin("bvadd", x.indexTerm(p), BVInt(i, 64))), nil).S()
			if acc == nil {
				acc = by
			} else {
				acc = Concat(acc, by)
			}
		}
		return scalar(types.NewArray(tUint8, n64), acc)
	case "ref":
		v := arg(0)
		return scalar(tUint64, v.C[0])
	case "K0", "K1", "K2", "K3", "K4", "K5":
		// storage-key constructors: contract address + up to five byte-string fields
		n := int(name[1] - '0')
		if len(call.Args) != n+1 {
			fail("%s takes %d arguments", name, n+1)
		}
		addr := arg(0)
		if len(addr.C) != 1 || addr.C[0].Sort != SBV(160) {
			fail("%s: first argument must be a contract address", name)
		}
		ts := []*Term{addr.C[0]}
		for i := 1; i <= n; i++ {
			ts = append(ts, x.bytesOfValue(env.st, arg(i)).S())
		}
		return scalar(specType("KeyT"), App(name, "KeyT", ts...))
	case "KRaw":
		return scalar(specType("KeyT"), App("KRaw", "KeyT", x.bytesOfValue(env.st, arg(0)).S()))
	case "keyOf":
		return scalar(specType("KeyT"), App("keyOf", "KeyT", x.bytesOfValue(env.st, arg(0)).S()))
	case "bcat":
		// concatenation of two abstract byte strings
		return scalar(specType("Bytes"), App("bcat", SBytes, x.bytesOfValue(env.st, arg(0)).S(), x.bytesOfValue(env.st, arg(1)).S()))
	case "u64le", "u32le":
		// little-endian byte string of an integer: injective (ground instances of the inverse law
		// are added for every term built, which keeps the queries quantifier-free)
		w := 64
		if name == "u32le" {
			w = 32
		}
		v := arg(0)
		if isUntyped(v) {
			v = x.typed(v, tUint64)
		}
		t := Resize(v.S(), w, false)
		app := App(name, SBytes, t)
		if !t.Bound {
			x.c.assume(TTrue, Eq(App(name+"_inv", SBV(w), app), t))
			x.c.assume(TTrue, Eq(App("blen", SBV(64), app), BVInt(int64(w/8), 64)))
		}
		return scalar(specType("Bytes"), app)
	case "has":
		// has(m, k): key k is present in Go map m
		m, k := arg(0), arg(1)
		mt, ok := m.T.Underlying().(*types.Map)
		if !ok {
			fail("has(): first argument must be a map")
		}
		k = x.typed(k, mt.Key())
		h, _ := x.mapLoad(env.st, m, x.mapKeyTerm(k))
		return boolVal(h)
	case "isnil":
		v := arg(0)
		return boolVal(Eq(v.C[0], BVInt(0, 64)))
	case "allocated":
		// allocated(p): p was allocated in the current env state
		v := arg(0)
		return boolVal(bvcmp("bvult", v.C[0], x.c.alloc(env.st)))
	case "fresh":
		// fresh(p): p allocated since old state
		v := arg(0)
		if env.old == nil {
			fail("fresh() needs an old state")
		}
		return boolVal(And(Not(bvcmp("bvult", v.C[0], x.c.alloc(env.old))), bvcmp("bvult", v.C[0], x.c.alloc(env.st))))
	case "dyntype":
		v := arg(0)
		t, err := x.prog.resolveTypeExpr(call.Args[1], env.pkg)
		if err != nil {
			fail("%v", err)
		}
		return boolVal(Eq(App("dyntype", SInt, v.C[0]), Lit(strconv.Itoa(x.prog.typeID(t)), SInt)))
	case "sel":
		a, i := arg(0), arg(1)
		return x.indexValue(env.st, a, i, nil)
	case "upd":
		a, i, v := arg(0), arg(1), arg(2)
		k, vs := a.S().Sort.ArrParts()
		it := x.coerceToSort(i, k)
		vt := x.coerceToSort(v, vs)
		return scalar(a.T, Store(a.S(), it, vt))
	case "Some":
		v := arg(0)
		return scalar(specType("OptBytes"), App("Some", "OptBytes", v.S()))
	case "issome":
		v := arg(0)
		return boolVal(App("(_ is Some)", SBool, v.S()))
	case "someval":
		v := arg(0)
		return scalar(specType("Bytes"), App("some_val", SBytes, v.S()))
	case "implies":
		return boolVal(Implies(arg(0).S(), arg(1).S()))
	case "overflows_add":
		a, b := arg(0), arg(1)
		if isUntyped(a) {
			a = coerce(a, b.T)
		} else if isUntyped(b) {
			b = coerce(b, a.T)
		}
		return boolVal(bvcmp("bvult", bvbin("bvadd", a.S(), b.S()), a.S()))
	}
	if sf, ok := x.prog.contracts.SpecFns[name]; ok {
		var args []Value
		for i := range call.Args {
			args = append(args, arg(i))
		}
		return x.applySpecFunc(env, sf, args)
	}
	fail("spec: unknown function %q in %q", name, se.Text)
	return Value{}
}

func (x *X) isSpecFuncName(n string) bool {
	_, ok := x.prog.contracts.SpecFns[n]
	return ok
}

func (x *X) arrSpecType(s Sort) types.Type {
	name := "Arr_" + strings.NewReplacer("(", "", ")", "", " ", "_").Replace(string(s))
	specSortReg[name] = s
	return specType(name)
}

func (x *X) coerceToSort(v Value, s Sort) *Term {
	if isUntyped(v) && v.K != nil {
		if s.IsBV() {
			bi, _ := newBig(v.K)
			return BVLit(bi, s.BVWidth())
		}
		if s == SInt {
			return constValue(v.K, specType("Int")).S()
		}
		if s == SBool {
			return constValue(v.K, tBool).S()
		}
	}
	t := v.S()
	if t.Sort != s {
		fail("sort mismatch: have %s want %s", t.Sort, s)
	}
	return t
}

type heapRead struct {
	name string
	sort Sort
}

var opaqueReadsCache = map[*SpecFunc][]heapRead{}

// opaqueReads returns the heaps the body of an opaque spec function reads (found by evaluating the body once
// with a recorder on heap lookups; heap names depend on static types only, so the set is the same for every
// application).
func (x *X) opaqueReads(env *SpecEnv, sf *SpecFunc, args []Value) []heapRead {
	if r, ok := opaqueReadsCache[sf]; ok {
		return r
	}
	outer := x.c.heapRec
	rec := map[string]Sort{}
	x.c.heapRec = rec
	was := x.revealed[sf.Name]
	if x.revealed == nil {
		x.revealed = map[string]bool{}
	}
	x.revealed[sf.Name] = true
	func() {
		defer func() {
			x.c.heapRec = outer
			x.revealed[sf.Name] = was
		}()
		x.applySpecFunc(env, sf, args)
	}()
	var out []heapRead
	for n, s := range rec {
		if n == allocName {
			continue // the allocation counter is consulted for well-formedness facts only
		}
		out = append(out, heapRead{n, s})
		if outer != nil {
			outer[n] = s
		}
	}
	sort.Slice(out, func(i, j int) bool { return out[i].name < out[j].name })
	opaqueReadsCache[sf] = out
	return out
}

func (x *X) applySpecFunc(env *SpecEnv, sf *SpecFunc, args []Value) Value {
	if len(args) != len(sf.Params) {
		fail("spec function %s: %d args, want %d", sf.Name, len(args), len(sf.Params))
	}
	if sf.PkgPath != "" {
		// identifiers of a spec function resolve in the package that declares it
		if tp, ok := x.prog.allPkgs[sf.PkgPath]; ok && tp != env.pkg {
			ne := *env
			ne.pkg = tp
			env = &ne
		}
	}
	rt, err := x.prog.resolveTypeText(sf.Ret, env.pkg)
	if err != nil {
		fail("%s: %v", sf.Name, err)
	}
	if sf.Body != "" && sf.Opaque && !x.revealed[sf.Name] {
		// opaque here: an uninterpreted function of the (scalar) arguments
		var ts []*Term
		for i, p := range sf.Params {
			s, err := x.prog.sortOfTypeText(p.Type, env.pkg)
			if err != nil {
				fail("%s: opaque spec functions need scalar parameters: %v", sf.Name, err)
			}
			ts = append(ts, x.coerceToSort(args[i], s))
		}
		// ... and of the heaps its body reads, in the state it is applied in (so a write to one of them
		// between two applications separates them)
		for _, hr := range x.opaqueReads(env, sf, args) {
			ts = append(ts, x.c.heap(env.st, hr.name, hr.sort))
		}
		l := layoutOf(rt)
		return scalar(rt, x.c.uf("opaque!"+sf.Name, l.Comps[0].Sort, ts...))
	}
	if sf.Body != "" {
		if sf.Expr == nil {
			pe, err := parseSpecExpr(sf.Body)
			if err != nil {
				fail("%s:%d: %v", sf.File, sf.Line, err)
			}
			sf.Expr = pe
		}
		ne := *env
		ne.names = map[string]Value{}
		for i, p := range sf.Params {
			pt, err := x.prog.resolveTypeText(p.Type, env.pkg)
			if err != nil {
				fail("%s: %v", sf.Name, err)
			}
			a := args[i]
			if isUntyped(a) {
				a = coerce(a, pt)
			}
			if isNilConst(a) {
				a = zeroValue(pt)
			}
			ne.names[p.Name] = Value{T: pt, C: a.C, K: a.K}
		}
		ne.frame = nil
		r := x.specEval(&ne, sf.Expr)
		if isUntyped(r) {
			r = coerce(r, rt)
		}
		return Value{T: rt, C: r.C}
	}
	// uninterpreted or SMT-defined: all params scalar
	var ts []*Term
	for i, p := range sf.Params {
		s, err := x.prog.sortOfTypeText(p.Type, env.pkg)
		if err != nil {
			fail("%s: %v", sf.Name, err)
		}
		ts = append(ts, x.coerceToSort(args[i], s))
	}
	l := layoutOf(rt)
	return scalar(rt, App(smtSym(sf.Name), l.Comps[0].Sort, ts...))
}
