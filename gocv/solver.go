package main

import (
	"bytes"
	"context"
	"fmt"
	"os"
	"os/exec"
	"path/filepath"
	"strings"
	"sync"
	"sync/atomic"
	"time"
)

var queryCounter int64

type solverSpec struct {
	name string
	args func(file string, secs int, rec bool) []string
}

var solvers = []solverSpec{
	{"z3-new", func(file string, secs int, rec bool) []string {
		return []string{"z3-new", fmt.Sprintf("-T:%d", secs), file}
	}},
	{"cvc5", func(file string, secs int, rec bool) []string {
		a := []string{"cvc5", fmt.Sprintf("--tlimit=%d", secs*1000)}
		if rec {
			a = append(a, "--fmf-fun")
		}
		return append(a, file)
	}},
	{"z3", func(file string, secs int, rec bool) []string {
		return []string{"z3", fmt.Sprintf("-T:%d", secs), file}
	}},
}

type solveResult struct {
	result string
	solver string
	secs   float64
	output string
}

func runSolver(ctx context.Context, sp solverSpec, file string, secs int, rec bool) solveResult {
	args := sp.args(file, secs, rec)
	t0 := time.Now()
	cctx, cancel := context.WithTimeout(ctx, time.Duration(secs+2)*time.Second)
	defer cancel()
	cmd := exec.CommandContext(cctx, args[0], args[1:]...)
	var out bytes.Buffer
	cmd.Stdout = &out
	cmd.Stderr = &out
	_ = cmd.Run()
	el := time.Since(t0).Seconds()
	text := out.String()
	first := ""
	for _, ln := range strings.Split(text, "\n") {
		// z3 prints pattern diagnostics before the answer (the pattern is then ignored; the answer stands)
		if ln = strings.TrimSpace(ln); ln != "" && !strings.HasPrefix(ln, "WARNING:") {
			first = ln
			break
		}
	}
	res := "unknown"
	switch first {
	case "sat", "unsat", "unknown", "timeout":
		res = first
	default:
		if cctx.Err() != nil {
			res = "timeout"
		} else if strings.Contains(first, "timeout") || strings.Contains(text, "interrupted by timeout") {
			res = "timeout"
		} else if strings.Contains(first, "error") || strings.Contains(first, "Error") {
			res = "error"
		}
	}
	return solveResult{res, sp.name, el, text}
}

// solveQuery: quick single-solver attempt, then a race of all solvers.
func solveQuery(workdir, name, query string, secs int, requireAll bool) solveResult {
	file := filepath.Join(workdir, fmt.Sprintf("%d-%s.smt2", atomic.AddInt64(&queryCounter, 1), sanitize(name)))
	if err := os.WriteFile(file, []byte(query), 0644); err != nil {
		return solveResult{"error", "io", 0, err.Error()}
	}
	defer os.Remove(file)
	rec := strings.Contains(query, "define-fun-rec")
	if !requireAll {
		quick := 2
		if secs < quick {
			quick = secs
		}
		r := runSolver(context.Background(), solvers[0], file, quick, rec)
		if r.result == "sat" || r.result == "unsat" {
			return r
		}
	}
	ctx, cancel := context.WithCancel(context.Background())
	defer cancel()
	ch := make(chan solveResult, len(solvers))
	for _, sp := range solvers {
		go func(sp solverSpec) { ch <- runSolver(ctx, sp, file, secs, rec) }(sp)
	}
	var all []solveResult
	var best *solveResult
	for range solvers {
		r := <-ch
		all = append(all, r)
		if r.result == "sat" || r.result == "unsat" {
			if !requireAll {
				cancel()
				return r
			}
			if best == nil {
				rr := r
				best = &rr
			} else if best.result != r.result {
				return solveResult{"error", "disagree", r.secs, fmt.Sprintf("solvers disagree: %s=%s %s=%s", best.solver, best.result, r.solver, r.result)}
			}
		}
	}
	if best != nil {
		// thorough tier: record which solvers agreed
		var names []string
		for _, r := range all {
			if r.result == best.result {
				names = append(names, r.solver)
			}
		}
		best.solver = strings.Join(names, "+")
		return *best
	}
	// no definite answer: report the most informative
	var sb strings.Builder
	res := "unknown"
	tot := 0.0
	for _, r := range all {
		fmt.Fprintf(&sb, "[%s: %s in %.1fs] %s\n", r.solver, r.result, r.secs, firstLines(r.output, 3))
		if r.result == "timeout" {
			res = "timeout"
		}
		if r.secs > tot {
			tot = r.secs
		}
	}
	return solveResult{res, "all", tot, sb.String()}
}

func firstLines(s string, n int) string {
	lines := strings.Split(strings.TrimSpace(s), "\n")
	if len(lines) > n {
		lines = lines[:n]
	}
	return strings.Join(lines, " | ")
}

func sanitize(s string) string {
	var sb strings.Builder
	for _, c := range s {
		if c >= 'a' && c <= 'z' || c >= 'A' && c <= 'Z' || c >= '0' && c <= '9' || c == '_' || c == '-' || c == '.' {
			sb.WriteRune(c)
		} else {
			sb.WriteRune('_')
		}
	}
	r := sb.String()
	if len(r) > 150 {
		r = r[:150]
	}
	return r
}

// dischargeAll solves every pending obligation of the given contexts in parallel.
func dischargeAll(ctxs []*Ctx, workdir string, secs int, requireAll bool, par int) {
	type job struct {
		c *Ctx
		o *Obligation
	}
	var jobs []job
	for _, c := range ctxs {
		for _, o := range c.obls {
			if o.Result == "" {
				jobs = append(jobs, job{c, o})
			}
		}
	}
	var wg sync.WaitGroup
	sem := make(chan struct{}, par)
	for _, j := range jobs {
		wg.Add(1)
		sem <- struct{}{}
		go func(j job) {
			defer wg.Done()
			defer func() { <-sem }()
			q := j.c.buildQuery(j.o, true)
			j.o.QueryLen = len(q)
			r := solveQuery(workdir, j.o.Name, q, secs, requireAll && !j.o.Cover)
			if j.o.Cover && r.result != "sat" && r.result != "unsat" && strings.Contains(q, "(forall ") {
				// reachability with quantified hypotheses is rarely decidable as sat: re-run on the
				// quantifier-free part (still refutes contradictions among the ground facts)
				j.o.relaxed = true
				q2 := j.c.buildQuery(j.o, true)
				r2 := solveQuery(workdir, j.o.Name+"-qf", q2, secs, false)
				if r2.result == "sat" {
					r2.solver += "(qf-relaxed)"
				}
				r2.secs += r.secs
				r = r2
			}
			j.o.Result = r.result
			j.o.Solver = r.solver
			j.o.Secs = r.secs
			if r.result != "unsat" {
				j.o.Model = r.output
			}
		}(j)
	}
	wg.Wait()
	// second pass: an obligation that was neither proved nor refuted (timeout / unknown) may just
	// have lost the race for CPU against the other solver processes; retry those few with little
	// parallelism and three times the time before calling them undecided. A refutation (sat) is
	// final and is never retried.
	var again []job
	for _, j := range jobs {
		// (reachability covers too: for them `sat` is the wanted answer, and a time-out under load would
		// otherwise be reported as a vacuity alarm)
		if j.o.Result != "unsat" && j.o.Result != "sat" {
			again = append(again, j)
		}
	}
	if len(again) == 0 || len(again) > 6 {
		// many undecided obligations at once is not scheduling noise
		return
	}
	sem2 := make(chan struct{}, 3)
	for _, j := range again {
		wg.Add(1)
		sem2 <- struct{}{}
		go func(j job) {
			defer wg.Done()
			defer func() { <-sem2 }()
			q := j.c.buildQuery(j.o, true)
			r := solveQuery(workdir, j.o.Name+"-retry", q, 3*secs, false)
			if r.result == "unsat" || r.result == "sat" {
				j.o.Result = r.result
				j.o.Solver = r.solver + "(retry)"
				j.o.Secs += r.secs
				if r.result == "sat" {
					j.o.Model = r.output
				} else {
					j.o.Model = ""
				}
			}
		}(j)
	}
	wg.Wait()
	// last pass, quick tier only: what is still undecided (at most three obligations) gets one more run, one at a
	// time, with six times the per-obligation limit - a machine that is busy with other work must not turn a
	// proof that needs ten seconds of solver time into an alarm
	if requireAll {
		return
	}
	var last []job
	for _, j := range again {
		if j.o.Result != "unsat" && j.o.Result != "sat" {
			last = append(last, j)
		}
	}
	if len(last) == 0 || len(last) > 3 {
		return
	}
	for _, j := range last {
		q := j.c.buildQuery(j.o, true)
		r := solveQuery(workdir, j.o.Name+"-retry2", q, 6*secs, false)
		if r.result == "unsat" || r.result == "sat" {
			j.o.Result = r.result
			j.o.Solver = r.solver + "(retry2)"
			j.o.Secs += r.secs
			if r.result == "sat" {
				j.o.Model = r.output
			} else {
				j.o.Model = ""
			}
		}
	}
}

func (o *Obligation) discharged() bool {
	if o.Cover {
		return o.Result == "sat"
	}
	return o.Result == "unsat"
}
