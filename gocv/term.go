package main

// SMT terms: a small tree with light simplification. Every fresh symbol gets a
// monotonically increasing id; a term remembers the largest id inside it so that the
// executor can tell "depends on state created after point X" (loop-variance test).

import (
	"fmt"
	"math/big"
	"strings"
)

type Sort string

const (
	SBool  Sort = "Bool"
	SStr   Sort = "Str"
	SBytes Sort = "Bytes"
	SInt   Sort = "Int"
	SFloat Sort = "Flt"
)

func SBV(n int) Sort { return Sort(fmt.Sprintf("(_ BitVec %d)", n)) }

var SRef = SBV(64)

func SArr(k, v Sort) Sort { return Sort("(Array " + string(k) + " " + string(v) + ")") }

func (s Sort) IsBV() bool { return strings.HasPrefix(string(s), "(_ BitVec ") }
func (s Sort) BVWidth() int {
	var n int
	fmt.Sscanf(string(s), "(_ BitVec %d)", &n)
	return n
}
func (s Sort) IsArr() bool { return strings.HasPrefix(string(s), "(Array ") }

// ArrParts splits "(Array K V)" into K and V.
func (s Sort) ArrParts() (Sort, Sort) {
	str := string(s)
	inner := str[len("(Array ") : len(str)-1]
	// K is either an atom or a parenthesised sort
	depth := 0
	for i, c := range inner {
		switch c {
		case '(':
			depth++
		case ')':
			depth--
		case ' ':
			if depth == 0 {
				return Sort(inner[:i]), Sort(inner[i+1:])
			}
		}
	}
	panic("bad array sort " + str)
}

type Term struct {
	Op     string // operator or symbol/literal text when len(Args)==0
	Args   []*Term
	Sort   Sort
	MaxSym int  // largest symbol id occurring inside (0 for closed literals)
	Bound  bool // contains a quantifier-bound variable (must not be hoisted)
	size   int
	Binder string // for quantifiers: "forall"/"exists"; Op holds the binder list text
	Pats   []*Term
}

func (t *Term) Size() int { return t.size }

func mk(op string, sort Sort, args ...*Term) *Term {
	t := &Term{Op: op, Args: args, Sort: sort, size: 1}
	for _, a := range args {
		if a.MaxSym > t.MaxSym {
			t.MaxSym = a.MaxSym
		}
		if a.Bound {
			t.Bound = true
		}
		t.size += a.size
	}
	return t
}

func Sym(name string, sort Sort, id int) *Term {
	return &Term{Op: name, Sort: sort, MaxSym: id, size: 1}
}

func BoundVar(name string, sort Sort) *Term {
	return &Term{Op: name, Sort: sort, Bound: true, size: 1}
}

func Lit(text string, sort Sort) *Term { return &Term{Op: text, Sort: sort, size: 1} }

var (
	TTrue  = Lit("true", SBool)
	TFalse = Lit("false", SBool)
)

func BVLit(v *big.Int, w int) *Term {
	m := new(big.Int).Lsh(big.NewInt(1), uint(w))
	x := new(big.Int).Mod(v, m)
	if x.Sign() < 0 {
		x.Add(x, m)
	}
	if w%4 == 0 {
		return Lit(fmt.Sprintf("#x%0*s", w/4, x.Text(16)), SBV(w))
	}
	return Lit(fmt.Sprintf("(_ bv%s %d)", x.String(), w), SBV(w))
}

func BVInt(v int64, w int) *Term { return BVLit(big.NewInt(v), w) }

// litVal returns the value of a BV literal term.
func (t *Term) litVal() (*big.Int, bool) {
	if len(t.Args) != 0 || !t.Sort.IsBV() {
		return nil, false
	}
	if strings.HasPrefix(t.Op, "#x") {
		v, ok := new(big.Int).SetString(t.Op[2:], 16)
		return v, ok
	}
	if strings.HasPrefix(t.Op, "(_ bv") {
		var s string
		var w int
		fmt.Sscanf(t.Op, "(_ bv%s %d)", &s, &w)
		v, ok := new(big.Int).SetString(s, 10)
		return v, ok
	}
	return nil, false
}

func (t *Term) isTrue() bool  { return t == TTrue || (len(t.Args) == 0 && t.Op == "true") }
func (t *Term) isFalse() bool { return t == TFalse || (len(t.Args) == 0 && t.Op == "false") }

func Not(a *Term) *Term {
	if a.isTrue() {
		return TFalse
	}
	if a.isFalse() {
		return TTrue
	}
	if a.Op == "not" && len(a.Args) == 1 {
		return a.Args[0]
	}
	return mk("not", SBool, a)
}

func And(as ...*Term) *Term {
	var out []*Term
	for _, a := range as {
		if a == nil || a.isTrue() {
			continue
		}
		if a.isFalse() {
			return TFalse
		}
		out = append(out, a)
	}
	switch len(out) {
	case 0:
		return TTrue
	case 1:
		return out[0]
	}
	return mk("and", SBool, out...)
}

func Or(as ...*Term) *Term {
	var out []*Term
	for _, a := range as {
		if a == nil || a.isFalse() {
			continue
		}
		if a.isTrue() {
			return TTrue
		}
		out = append(out, a)
	}
	switch len(out) {
	case 0:
		return TFalse
	case 1:
		return out[0]
	}
	return mk("or", SBool, out...)
}

func Implies(a, b *Term) *Term {
	if a.isTrue() {
		return b
	}
	if a.isFalse() || b.isTrue() {
		return TTrue
	}
	return mk("=>", SBool, a, b)
}

func Eq(a, b *Term) *Term {
	if a == b {
		return TTrue
	}
	if a.Sort != b.Sort {
		panic(fmt.Sprintf("Eq sort mismatch: %s : %s  vs  %s : %s", a, a.Sort, b, b.Sort))
	}
	if len(a.Args) == 0 && len(b.Args) == 0 && a.Op == b.Op && !a.Bound {
		return TTrue
	}
	if av, ok := a.litVal(); ok {
		if bv, ok2 := b.litVal(); ok2 {
			if av.Cmp(bv) == 0 {
				return TTrue
			}
			return TFalse
		}
	}
	if a.Sort == SBool {
		if a.isTrue() {
			return b
		}
		if b.isTrue() {
			return a
		}
		if a.isFalse() {
			return Not(b)
		}
		if b.isFalse() {
			return Not(a)
		}
	}
	return mk("=", SBool, a, b)
}

func Ite(c, a, b *Term) *Term {
	if c.isTrue() {
		return a
	}
	if c.isFalse() {
		return b
	}
	if a == b {
		return a
	}
	if a.Sort != b.Sort {
		panic(fmt.Sprintf("Ite sort mismatch: %s vs %s", a.Sort, b.Sort))
	}
	if a.Sort == SBool {
		if a.isTrue() && b.isFalse() {
			return c
		}
		if a.isFalse() && b.isTrue() {
			return Not(c)
		}
	}
	return mk("ite", a.Sort, c, a, b)
}

func Select(arr, idx *Term) *Term {
	_, v := arr.Sort.ArrParts()
	// read-over-write with syntactically identical index
	if arr.Op == "store" && len(arr.Args) == 3 {
		if arr.Args[1] == idx {
			return arr.Args[2]
		}
		if e := Eq(arr.Args[1], idx); e.isTrue() {
			return arr.Args[2]
		} else if e.isFalse() {
			return Select(arr.Args[0], idx)
		}
	}
	return mk("select", v, arr, idx)
}

func Store(arr, idx, val *Term) *Term {
	k, v := arr.Sort.ArrParts()
	if idx.Sort != k || val.Sort != v {
		panic(fmt.Sprintf("Store sort mismatch: arr %s idx %s val %s", arr.Sort, idx.Sort, val.Sort))
	}
	return mk("store", arr.Sort, arr, idx, val)
}

func ConstArr(sort Sort, v *Term) *Term {
	return mk("(as const "+string(sort)+")", sort, v)
}

func App(fn string, sort Sort, args ...*Term) *Term { return mk(fn, sort, args...) }

// bit-vector helpers ---------------------------------------------------------------

func bvbin(op string, a, b *Term) *Term {
	if a.Sort != b.Sort {
		panic(fmt.Sprintf("%s sort mismatch: %s:%s vs %s:%s", op, a, a.Sort, b, b.Sort))
	}
	w := a.Sort.BVWidth()
	av, aok := a.litVal()
	bv, bok := b.litVal()
	if aok && bok {
		m := new(big.Int).Lsh(big.NewInt(1), uint(w))
		r := new(big.Int)
		switch op {
		case "bvadd":
			return BVLit(r.Add(av, bv), w)
		case "bvsub":
			return BVLit(r.Sub(av, bv), w)
		case "bvmul":
			return BVLit(r.Mul(av, bv), w)
		case "bvand":
			return BVLit(r.And(av, bv), w)
		case "bvor":
			return BVLit(r.Or(av, bv), w)
		case "bvxor":
			return BVLit(r.Xor(av, bv), w)
		case "bvshl":
			if bv.Cmp(big.NewInt(int64(w))) >= 0 {
				return BVInt(0, w)
			}
			return BVLit(r.Mod(r.Lsh(av, uint(bv.Int64())), m), w)
		case "bvlshr":
			if bv.Cmp(big.NewInt(int64(w))) >= 0 {
				return BVInt(0, w)
			}
			return BVLit(r.Rsh(av, uint(bv.Int64())), w)
		case "bvudiv":
			if bv.Sign() != 0 {
				return BVLit(r.Div(av, bv), w)
			}
		case "bvurem":
			if bv.Sign() != 0 {
				return BVLit(r.Mod(av, bv), w)
			}
		}
	}
	if bok && bv.Sign() == 0 {
		switch op {
		case "bvadd", "bvsub", "bvor", "bvxor", "bvshl", "bvlshr", "bvashr":
			return a
		}
	}
	if aok && av.Sign() == 0 {
		switch op {
		case "bvadd", "bvor", "bvxor":
			return b
		}
	}
	return mk(op, a.Sort, a, b)
}

func bvcmp(op string, a, b *Term) *Term {
	if a.Sort != b.Sort {
		panic(fmt.Sprintf("%s sort mismatch: %s:%s vs %s:%s", op, a, a.Sort, b, b.Sort))
	}
	av, aok := a.litVal()
	bv, bok := b.litVal()
	if aok && bok {
		w := a.Sort.BVWidth()
		if op[2] == 's' { // signed
			half := new(big.Int).Lsh(big.NewInt(1), uint(w-1))
			full := new(big.Int).Lsh(big.NewInt(1), uint(w))
			if av.Cmp(half) >= 0 {
				av = new(big.Int).Sub(av, full)
			}
			if bv.Cmp(half) >= 0 {
				bv = new(big.Int).Sub(bv, full)
			}
		}
		c := av.Cmp(bv)
		var r bool
		switch op[3:] {
		case "lt":
			r = c < 0
		case "le":
			r = c <= 0
		case "gt":
			r = c > 0
		case "ge":
			r = c >= 0
		}
		if r {
			return TTrue
		}
		return TFalse
	}
	return mk(op, SBool, a, b)
}

func Extract(hi, lo int, a *Term) *Term {
	w := a.Sort.BVWidth()
	if lo == 0 && hi == w-1 {
		return a
	}
	if v, ok := a.litVal(); ok {
		r := new(big.Int).Rsh(v, uint(lo))
		return BVLit(r, hi-lo+1)
	}
	return mk(fmt.Sprintf("(_ extract %d %d)", hi, lo), SBV(hi-lo+1), a)
}

func ZeroExt(n int, a *Term) *Term {
	if n == 0 {
		return a
	}
	w := a.Sort.BVWidth()
	if v, ok := a.litVal(); ok {
		return BVLit(v, w+n)
	}
	return mk(fmt.Sprintf("(_ zero_extend %d)", n), SBV(w+n), a)
}

func SignExt(n int, a *Term) *Term {
	if n == 0 {
		return a
	}
	w := a.Sort.BVWidth()
	if v, ok := a.litVal(); ok {
		half := new(big.Int).Lsh(big.NewInt(1), uint(w-1))
		if v.Cmp(half) >= 0 {
			v = new(big.Int).Sub(v, new(big.Int).Lsh(big.NewInt(1), uint(w)))
		}
		return BVLit(v, w+n)
	}
	return mk(fmt.Sprintf("(_ sign_extend %d)", n), SBV(w+n), a)
}

func Concat(a, b *Term) *Term {
	return mk("concat", SBV(a.Sort.BVWidth()+b.Sort.BVWidth()), a, b)
}

// Resize converts a BV to width w (truncate, or extend by sign/zero).
func Resize(a *Term, w int, signed bool) *Term {
	aw := a.Sort.BVWidth()
	switch {
	case aw == w:
		return a
	case aw > w:
		return Extract(w-1, 0, a)
	case signed:
		return SignExt(w-aw, a)
	default:
		return ZeroExt(w-aw, a)
	}
}

// Quantifier. vars: list of (name sort) bound variables.
func Quant(binder string, vars []*Term, body *Term, pats []*Term) *Term {
	if len(vars) == 0 {
		return body
	}
	var sb strings.Builder
	sb.WriteString("(")
	for _, v := range vars {
		fmt.Fprintf(&sb, "(%s %s)", v.Op, v.Sort)
	}
	sb.WriteString(")")
	t := &Term{Op: sb.String(), Args: []*Term{body}, Sort: SBool, Binder: binder, Pats: pats,
		MaxSym: body.MaxSym, size: body.size + 1}
	// a closed quantifier no longer contains *its* bound vars; nested outer ones may remain
	t.Bound = containsBoundOtherThan(body, vars)
	return t
}

func containsBoundOtherThan(t *Term, vars []*Term) bool {
	if !t.Bound {
		return false
	}
	if len(t.Args) == 0 {
		for _, v := range vars {
			if v.Op == t.Op {
				return false
			}
		}
		return true
	}
	if t.Binder != "" {
		return t.Bound
	}
	for _, a := range t.Args {
		if containsBoundOtherThan(a, vars) {
			return true
		}
	}
	return false
}

func (t *Term) String() string {
	var sb strings.Builder
	t.write(&sb)
	return sb.String()
}

func (t *Term) write(sb *strings.Builder) {
	if t.Binder != "" {
		sb.WriteString("(")
		sb.WriteString(t.Binder)
		sb.WriteString(" ")
		sb.WriteString(t.Op)
		sb.WriteString(" ")
		if len(t.Pats) > 0 {
			sb.WriteString("(! ")
			t.Args[0].write(sb)
			for _, p := range t.Pats {
				sb.WriteString(" :pattern (")
				p.write(sb)
				sb.WriteString(")")
			}
			sb.WriteString(")")
		} else {
			t.Args[0].write(sb)
		}
		sb.WriteString(")")
		return
	}
	if len(t.Args) == 0 {
		sb.WriteString(t.Op)
		return
	}
	if t.Op == "$multi" {
		// multi-pattern: terms side by side inside one :pattern ( ... )
		for i, a := range t.Args {
			if i > 0 {
				sb.WriteString(" ")
			}
			a.write(sb)
		}
		return
	}
	sb.WriteString("(")
	sb.WriteString(t.Op)
	for _, a := range t.Args {
		sb.WriteString(" ")
		a.write(sb)
	}
	sb.WriteString(")")
}

// collectSelectPatterns finds select/app terms that mention a bound var, used as triggers.
func collectPatterns(t *Term, vars []*Term, out *[]*Term, seen map[string]bool) {
	if !t.Bound || t.Binder != "" {
		return
	}
	isCand := (t.Op == "select" || isUFApp(t)) && mentionsAll(t, vars)
	if isCand {
		// prefer smallest: if a child is also a candidate mentioning all vars, take child
		childHas := false
		for _, a := range t.Args {
			var sub []*Term
			collectPatterns(a, vars, &sub, seen)
			if len(sub) > 0 {
				childHas = true
				*out = append(*out, sub...)
			}
		}
		if !childHas && !patternOK(t) {
			// solvers reject patterns with ite / boolean connectives inside (and then ignore every pattern
			// of the quantifier): look for usable sub-terms that mention some of the variables instead
			return
		}
		if !childHas {
			s := t.String()
			if !seen[s] {
				seen[s] = true
				*out = append(*out, t)
			}
		}
		return
	}
	for _, a := range t.Args {
		collectPatterns(a, vars, out, seen)
	}
}

// collectConjuncts records the text of every conjunct of t (t itself when it is not a conjunction).
func collectConjuncts(t *Term, out map[string]bool) {
	if t.Binder == "" && t.Op == "and" && len(t.Args) > 0 {
		for _, a := range t.Args {
			collectConjuncts(a, out)
		}
		return
	}
	if t.size <= 64 {
		out[t.String()] = true
	}
}

func patternOK(t *Term) bool {
	switch t.Op {
	case "ite", "and", "or", "not", "=>", "=", "distinct":
		if len(t.Args) > 0 {
			return false
		}
	}
	if t.Binder != "" {
		return false
	}
	for _, a := range t.Args {
		if !patternOK(a) {
			return false
		}
	}
	return true
}

func isUFApp(t *Term) bool {
	if len(t.Args) == 0 {
		return false
	}
	switch t.Op {
	case "and", "or", "not", "=>", "=", "ite", "store", "select", "concat", "distinct":
		return false
	}
	if strings.HasPrefix(t.Op, "bv") || strings.HasPrefix(t.Op, "(_") || strings.HasPrefix(t.Op, "(as") {
		return false
	}
	switch t.Op {
	case "+", "-", "*", "div", "mod", "<", "<=", ">", ">=":
		return false
	}
	return true
}

func mentionsAll(t *Term, vars []*Term) bool {
	for _, v := range vars {
		if !mentions(t, v.Op) {
			return false
		}
	}
	return true
}

func mentions(t *Term, name string) bool {
	if !t.Bound {
		return false
	}
	if len(t.Args) == 0 {
		return t.Op == name
	}
	for _, a := range t.Args {
		if mentions(a, name) {
			return true
		}
	}
	return false
}

// subst replaces bound variable occurrences (by name) with terms.
func subst(t *Term, m map[string]*Term) *Term {
	if !t.Bound {
		return t
	}
	if len(t.Args) == 0 {
		if r, ok := m[t.Op]; ok {
			return r
		}
		return t
	}
	args := make([]*Term, len(t.Args))
	changed := false
	for i, a := range t.Args {
		args[i] = subst(a, m)
		if args[i] != a {
			changed = true
		}
	}
	if !changed {
		return t
	}
	if t.Binder != "" {
		nt := *t
		nt.Args = args
		nt.Pats = nil
		for _, p := range t.Pats {
			nt.Pats = append(nt.Pats, subst(p, m))
		}
		nt.MaxSym = args[0].MaxSym
		return &nt
	}
	return rebuild(t.Op, t.Sort, args)
}

// rebuild re-applies simplifying constructors for known ops.
func rebuild(op string, sort Sort, args []*Term) *Term {
	switch op {
	case "and":
		return And(args...)
	case "or":
		return Or(args...)
	case "not":
		return Not(args[0])
	case "=>":
		return Implies(args[0], args[1])
	case "=":
		return Eq(args[0], args[1])
	case "ite":
		return Ite(args[0], args[1], args[2])
	case "select":
		return Select(args[0], args[1])
	}
	return mk(op, sort, args...)
}
