package main

import (
	"fmt"
	"go/token"
	"go/types"
	"sort"
	"strings"
)

type Obligation struct {
	Name     string
	Fn       string
	Kind     string
	Goal     *Term
	PC       *Term
	nDecls   int
	nFacts   int
	Pos      token.Position
	Cover    bool // must be SAT (reachability)
	Props    []string
	Detail   string
	Inputs   []InputSym // entry-state symbols for replay
	Result   string     // unsat / sat / unknown / timeout
	Solver   string
	Secs     float64
	Model    string
	QueryLen int
	Bounded  bool
	relaxed  bool // cover check re-run without quantified facts
	ctx      *Ctx
	results  []Value // result values of the return this obligation belongs to (postconditions)
	Raw      string  // complete query text (key-template lemmas): used as it stands, "unsat" = holds
}

type InputSym struct {
	Name string // Go-level name (param path)
	Sym  string // SMT symbol
	Sort Sort
}

// Ctx is the verification context of one function (or lemma).
type Ctx struct {
	prog     *Program
	symN     int
	pre      []string // always-included declarations (initial heaps)
	decls    []string
	facts    []*Term
	obls     []*Obligation
	dry      int
	fnName   string
	props    []string
	counters map[string]int
	assumed  map[string]bool
	ufs      map[string]string
	abstract bool
	nopanic  bool
	inputs   []InputSym
	notes    []string
	usesQuant bool
	wfSeen   map[string]bool
	entrySym int // symbols with id <= entrySym denote the function-entry state
	curResults []Value   // set while postconditions of one return are generated (for replay)
	fi       *FuncInfo   // function under verification (nil for lemmas)
	inputVals []inputVal // typed input values (for replay)
	heapRec  map[string]Sort // when non-nil, heap() records the heaps it is asked for (reads of an opaque spec body)
}

type inputVal struct {
	Name   string
	IsRecv bool
	V      Value
}

func newCtx(prog *Program, fnName string) *Ctx {
	return &Ctx{prog: prog, fnName: fnName, counters: map[string]int{}, assumed: map[string]bool{}, ufs: map[string]string{}}
}

func (c *Ctx) fresh(hint string, sort Sort) *Term {
	c.symN++
	name := smtSym(fmt.Sprintf("%s!%d", hint, c.symN))
	c.decls = append(c.decls, fmt.Sprintf("(declare-const %s %s)", name, sort))
	return Sym(name, sort, c.symN)
}

// define names a large term so that later uses stay small.
func (c *Ctx) define(hint string, t *Term) *Term {
	if t.Bound || t.size < 12 {
		return t
	}
	c.symN++
	name := smtSym(fmt.Sprintf("%s!%d", hint, c.symN))
	// declare + assert instead of define-fun: solvers expand define-fun macros inside quantifier
	// patterns, and an expanded ite/and/not makes the pattern illegal
	c.decls = append(c.decls, fmt.Sprintf("(declare-const %s %s)\n(assert (= %s %s))", name, t.Sort, name, t.String()))
	s := Sym(name, t.Sort, c.symN)
	return s
}

// abbreviate is define for a term that must keep its age: the new name stands for a value that existed when the
// newest symbol of t did (entry-state and loop-threshold tests look at MaxSym).
func (c *Ctx) abbreviate(hint string, t *Term) *Term {
	if t.Bound {
		return t
	}
	c.symN++
	name := smtSym(fmt.Sprintf("%s!%d", hint, c.symN))
	c.decls = append(c.decls, fmt.Sprintf("(declare-const %s %s)\n(assert (= %s %s))", name, t.Sort, name, t.String()))
	return Sym(name, t.Sort, t.MaxSym)
}

// skolemize replaces positively occurring universal quantifiers of a goal by fresh constants.
func (c *Ctx) skolemize(t *Term) *Term {
	switch {
	case t.Binder == "forall":
		m := map[string]*Term{}
		// binder list text: ((name sort)(name sort))
		for _, bv := range parseBinders(t.Op) {
			m[bv.Op] = c.fresh("sk_"+strings.TrimSuffix(bv.Op, "_q"), bv.Sort)
		}
		return c.skolemize(subst(t.Args[0], m))
	case t.Binder != "":
		return t
	case t.Op == "and" && len(t.Args) > 0:
		args := make([]*Term, len(t.Args))
		for i, a := range t.Args {
			args[i] = c.skolemize(a)
		}
		return And(args...)
	case t.Op == "=>" && len(t.Args) == 2:
		return Implies(t.Args[0], c.skolemize(t.Args[1]))
	}
	return t
}

func parseBinders(s string) []*Term {
	// "((a S)(b (_ BitVec 64)))"
	var out []*Term
	s = strings.TrimSpace(s)
	s = s[1 : len(s)-1]
	i := 0
	for i < len(s) {
		if s[i] != '(' {
			i++
			continue
		}
		j := matchParen(s, i)
		inner := s[i+1 : j]
		sp := strings.IndexByte(inner, ' ')
		out = append(out, BoundVar(inner[:sp], Sort(inner[sp+1:])))
		i = j + 1
	}
	return out
}

func (c *Ctx) defineValue(hint string, v Value) Value {
	out := Value{T: v.T, C: make([]*Term, len(v.C)), K: v.K}
	for i, t := range v.C {
		out.C[i] = c.define(hint, t)
	}
	return out
}

func (c *Ctx) freshValue(hint string, t types.Type) Value {
	l := layoutOf(t)
	v := Value{T: t, C: make([]*Term, len(l.Comps))}
	for i, comp := range l.Comps {
		v.C[i] = c.fresh(hint+comp.Path, comp.Sort)
	}
	return v
}

// uf registers an uninterpreted function and applies it.
func (c *Ctx) uf(name string, ret Sort, args ...*Term) *Term {
	if _, ok := c.ufs[name]; !ok {
		var ss []string
		for _, a := range args {
			ss = append(ss, string(a.Sort))
		}
		c.ufs[name] = fmt.Sprintf("(declare-fun %s (%s) %s)", smtSym(name), strings.Join(ss, " "), ret)
	}
	return App(smtSym(name), ret, args...)
}

func (c *Ctx) assume(pc *Term, f *Term) {
	if f.isTrue() {
		return
	}
	if containsQuant(f) {
		c.usesQuant = true
	}
	c.facts = append(c.facts, Implies(pc, f))
}

func containsQuant(t *Term) bool {
	if t.Binder != "" {
		return true
	}
	for _, a := range t.Args {
		if containsQuant(a) {
			return true
		}
	}
	return false
}

func (c *Ctx) assumption(s string) { c.assumed[s] = true }

func (c *Ctx) note(s string) { c.notes = append(c.notes, s) }

// oblige records a proof obligation pc ==> goal (unless in a dry run).
func (c *Ctx) oblige(kind string, pc, goal *Term, pos token.Position, detail string) *Obligation {
	if c.dry > 0 {
		return nil
	}
	goal = c.skolemize(goal)
	c.groundLEFacts(goal, map[*Term]bool{})
	if goal.isTrue() || pc.isFalse() {
		// trivially discharged: still count it, with result recorded at once
		c.counters[kind]++
		o := &Obligation{Name: fmt.Sprintf("%s/%s#%d", c.fnName, kind, c.counters[kind]), Fn: c.fnName, Kind: kind,
			Goal: goal, PC: pc, Pos: pos, Props: c.props, Detail: detail, Result: "unsat", Solver: "trivial"}
		c.obls = append(c.obls, o)
		return o
	}
	c.counters[kind]++
	o := &Obligation{Name: fmt.Sprintf("%s/%s#%d", c.fnName, kind, c.counters[kind]), Fn: c.fnName, Kind: kind,
		Goal: goal, PC: pc, nDecls: len(c.decls), nFacts: len(c.facts), Pos: pos, Props: c.props, Detail: detail, Inputs: c.inputs,
		ctx: c, results: c.curResults}
	c.obls = append(c.obls, o)
	return o
}

// groundLEFacts adds the inverse/length facts of u64le/u32le for every application in a
// skolemised goal whose argument no longer contains a bound variable (applications built under
// a quantifier get no fact when they are built; skolemisation makes them ground).
func (c *Ctx) groundLEFacts(t *Term, seen map[*Term]bool) {
	if t == nil || seen[t] {
		return
	}
	seen[t] = true
	if t.Binder != "" {
		return
	}
	if (t.Op == "u64le" || t.Op == "u32le") && len(t.Args) == 1 && !t.Args[0].Bound {
		w := 64
		if t.Op == "u32le" {
			w = 32
		}
		key := "lefact:" + t.String()
		if c.counters[key] == 0 {
			c.counters[key] = 1
			c.assume(TTrue, Eq(App(t.Op+"_inv", SBV(w), t), t.Args[0]))
			c.assume(TTrue, Eq(App("blen", SBV(64), t), BVInt(int64(w/8), 64)))
		}
	}
	for _, a := range t.Args {
		c.groundLEFacts(a, seen)
	}
}

// splitGoal turns A => (B and C) / (B and C) into separate goals (smaller queries discharge
// far more reliably than one conjunction).
func splitGoal(t *Term) []*Term {
	if t.Binder == "" && t.Op == "and" && len(t.Args) > 1 {
		var out []*Term
		for _, a := range t.Args {
			out = append(out, splitGoal(a)...)
		}
		return out
	}
	if t.Binder == "" && t.Op == "=>" && len(t.Args) == 2 {
		parts := splitGoal(t.Args[1])
		if len(parts) > 1 {
			var out []*Term
			for _, p := range parts {
				out = append(out, Implies(t.Args[0], p))
			}
			return out
		}
	}
	return []*Term{t}
}

// obligeSplit records one obligation per conjunct of the goal (name.1, name.2, ...).
func (c *Ctx) obligeSplit(name, kind string, pc, goal *Term, pos token.Position, detail string) {
	parts := splitGoal(goal)
	if len(parts) == 1 {
		c.obligeNamed(name, kind, pc, goal, pos, detail)
		return
	}
	for i, p := range parts {
		c.obligeNamed(fmt.Sprintf("%s/%d", name, i+1), kind, pc, p, pos, detail)
	}
}

// named obligation (explicit name instead of ordinal)
func (c *Ctx) obligeNamed(name, kind string, pc, goal *Term, pos token.Position, detail string) *Obligation {
	o := c.oblige(kind, pc, goal, pos, detail)
	if o != nil && name != "" {
		full := c.fnName + "/" + name
		c.counters["name:"+full]++
		if n := c.counters["name:"+full]; n > 1 {
			full = fmt.Sprintf("%s.%d", full, n)
		}
		o.Name = full
	}
	return o
}

func (c *Ctx) cover(name string, pc *Term, pos token.Position) {
	if c.dry > 0 {
		return
	}
	o := &Obligation{Name: c.fnName + "/cover:" + name, Fn: c.fnName, Kind: "cover", Goal: TFalse, PC: pc,
		nDecls: len(c.decls), nFacts: len(c.facts), Pos: pos, Cover: true, Props: c.props}
	if pc.isFalse() {
		o.Result = "unsat"
		o.Solver = "trivial"
	}
	c.obls = append(c.obls, o)
}

// ---------------------------------------------------------------------------------
// Query assembly

const preludeCore = `(declare-sort Str 0)
(declare-sort Bytes 0)
(declare-sort Flt 0)
(declare-const str_empty Str)
(declare-const bytes_empty Bytes)
(declare-const flt_zero Flt)
(declare-fun str_len (Str) (_ BitVec 64))
(declare-fun str_cat (Str Str) Str)
(declare-fun str_lt (Str Str) Bool)
(declare-fun str_arr (Str) (Array (_ BitVec 64) (_ BitVec 8)))
(declare-fun bytes_of ((Array (_ BitVec 64) (_ BitVec 8)) (_ BitVec 64) (_ BitVec 64)) Bytes)
(declare-fun blen (Bytes) (_ BitVec 64))
(declare-fun bat (Bytes (_ BitVec 64)) (_ BitVec 8))
(declare-fun bcat (Bytes Bytes) Bytes)
(declare-fun str_of_bytes (Bytes) Str)
(declare-fun bytes_of_str (Str) Bytes)
(declare-fun dyntype ((_ BitVec 64)) Int)
(declare-fun flt_add (Flt Flt) Flt)
(declare-fun flt_sub (Flt Flt) Flt)
(declare-fun flt_mul (Flt Flt) Flt)
(declare-fun flt_div (Flt Flt) Flt)
(declare-fun flt_lt (Flt Flt) Bool)
(declare-fun flt_le (Flt Flt) Bool)
(declare-fun flt_of_u ((_ BitVec 64)) Flt)
(declare-fun flt_of_s ((_ BitVec 64)) Flt)
(declare-fun flt_to_bv (Flt) (_ BitVec 64))
(declare-datatypes ((OptBytes 0)) (((None) (Some (some_val Bytes)))))
(declare-datatypes ((KeyT 0)) (((K0 (k0c (_ BitVec 160))) (K1 (k1c (_ BitVec 160)) (k1a Bytes)) (K2 (k2c (_ BitVec 160)) (k2a Bytes) (k2b Bytes)) (K3 (k3c (_ BitVec 160)) (k3a Bytes) (k3b Bytes) (k3d Bytes)) (K4 (k4c (_ BitVec 160)) (k4a Bytes) (k4b Bytes) (k4d Bytes) (k4e Bytes)) (K5 (k5c (_ BitVec 160)) (k5a Bytes) (k5b Bytes) (k5d Bytes) (k5e Bytes) (k5f Bytes)) (KRaw (kraw Bytes)))))
(declare-fun keyOf (Bytes) KeyT)
(declare-fun u64le ((_ BitVec 64)) Bytes)
(declare-fun u32le ((_ BitVec 32)) Bytes)
(declare-fun u64le_inv (Bytes) (_ BitVec 64))
(declare-fun u32le_inv (Bytes) (_ BitVec 32))
`

// conditional axioms: included only when the query mentions the function (keeps QF queries QF)
const axU64 = "(assert (forall ((x (_ BitVec 64))) (! (= (u64le_inv (u64le x)) x) :pattern ((u64le x)))))\n(assert (forall ((x (_ BitVec 64))) (! (= (blen (u64le x)) #x0000000000000008) :pattern ((u64le x)))))\n"
const axU32 = "(assert (forall ((x (_ BitVec 32))) (! (= (u32le_inv (u32le x)) x) :pattern ((u32le x)))))\n(assert (forall ((x (_ BitVec 32))) (! (= (blen (u32le x)) #x0000000000000004) :pattern ((u32le x)))))\n"


func (c *Ctx) buildQuery(o *Obligation, withModel bool) string {
	if o.Raw != "" {
		return o.Raw
	}
	var sb strings.Builder
	body := c.queryBody(o)
	quant := strings.Contains(body, "(forall ") || strings.Contains(body, "(exists ") || strings.Contains(body, "define-fun-rec")
	if withModel {
		sb.WriteString("(set-option :produce-models true)\n")
	}
	_ = quant
	sb.WriteString("(set-logic ALL)\n")
	sb.WriteString(preludeCore)
	sb.WriteString(c.prog.keyPrelude)
	// string literals
	if len(strLitOrder) > 0 {
		names := []string{"str_empty"}
		for _, s := range strLitOrder {
			n := strLits[s]
			fmt.Fprintf(&sb, "(declare-const %s Str)\n", n)
			fmt.Fprintf(&sb, "(assert (= (str_len %s) %s))\n", n, BVInt(int64(len(s)), 64))
			names = append(names, n)
		}
		fmt.Fprintf(&sb, "(assert (distinct %s))\n", strings.Join(names, " "))
		if strings.Contains(body, "bytes_of_str") {
			// different string literals have different byte contents
			var bs []string
			for _, n := range names {
				bs = append(bs, "(bytes_of_str "+n+")")
			}
			fmt.Fprintf(&sb, "(assert (distinct %s))\n", strings.Join(bs, " "))
		}
	}
	sb.WriteString("(assert (= (str_len str_empty) #x0000000000000000))\n")
	sb.WriteString("(assert (= (blen bytes_empty) #x0000000000000000))\n")
	for _, f := range sortedKeys(fltLits) {
		fmt.Fprintf(&sb, "(declare-const %s Flt)\n", f)
	}
	sb.WriteString(c.prog.specPrelude)
	var ufNames []string
	for n := range c.ufs {
		ufNames = append(ufNames, n)
	}
	sort.Strings(ufNames)
	for _, n := range ufNames {
		sb.WriteString(c.ufs[n])
		sb.WriteString("\n")
	}
	sb.WriteString(body)
	sb.WriteString("(check-sat)\n")
	if withModel {
		sb.WriteString("(get-model)\n")
	}
	return sb.String()
}

func sortedKeys(m map[string]bool) []string {
	var ks []string
	for k := range m {
		ks = append(ks, k)
	}
	sort.Strings(ks)
	return ks
}

func (c *Ctx) queryBody(o *Obligation) string {
	var sb strings.Builder
	for _, d := range c.pre {
		sb.WriteString(d)
		sb.WriteString("\n")
	}
	for _, d := range c.decls[:o.nDecls] {
		sb.WriteString(d)
		sb.WriteString("\n")
	}
	for _, f := range c.facts[:o.nFacts] {
		if o.relaxed && containsQuant(f) {
			continue
		}
		sb.WriteString("(assert ")
		sb.WriteString(f.String())
		sb.WriteString(")\n")
	}
	sb.WriteString("(assert ")
	sb.WriteString(o.PC.String())
	sb.WriteString(")\n")
	if !o.Cover {
		sb.WriteString("(assert (not ")
		sb.WriteString(o.Goal.String())
		sb.WriteString("))\n")
	}
	return sb.String()
}
