package main

import (
	"fmt"
	"go/ast"
	"go/constant"
	"go/parser"
	"go/token"
	"go/types"
	"os"
	"path/filepath"
	"sort"
	"strings"

	"golang.org/x/tools/go/packages"
)

type FuncInfo struct {
	Decl *ast.FuncDecl
	Pkg  *packages.Package
	Obj  *types.Func
}

type Program struct {
	fset        *token.FileSet
	pkgs        map[string]*packages.Package
	allPkgs     map[string]*types.Package
	funcs       map[string]*FuncInfo
	contracts   *Contracts
	keyPrelude  string
	specPrelude string
	repo        string
	overlay     map[string][]byte
	typeIDs     map[string]int
	globalInits map[string]map[string]constant.Value
	aliases     map[string]map[string]string // package path -> import alias -> import path
}

const modulePath = "github.com/polynetwork/poly"

func pkgPathOfDir(repo, dir string) string {
	rel, _ := filepath.Rel(repo, dir)
	if rel == "." {
		return modulePath
	}
	return modulePath + "/" + filepath.ToSlash(rel)
}

// loadContracts reads every contract file (cheap, text only).
func loadContracts(repo, verifDir string) (*Contracts, error) {
	cs := newContracts()
	cvs, _ := filepath.Glob(filepath.Join(verifDir, "contracts", "*.cv"))
	sort.Strings(cvs)
	for _, f := range cvs {
		if err := cs.loadContractFile(f, ""); err != nil {
			return nil, err
		}
	}
	files, err := findContractFiles(repo)
	if err != nil {
		return nil, err
	}
	sort.Strings(files)
	for _, f := range files {
		if err := cs.loadContractFile(f, pkgPathOfDir(repo, filepath.Dir(f))); err != nil {
			return nil, err
		}
	}
	// invariant-of T: required at entry and ensured at exit of every method of T under contract
	for _, fs := range cs.Funcs {
		if !strings.HasPrefix(fs.Key, "(") {
			continue
		}
		recv := fs.Key[1:strings.Index(fs.Key, ")")]
		if strings.HasSuffix(fs.Key, ".$new") {
			continue
		}
		for _, inv := range cs.InvOf[recv] {
			r := inv
			r.Name = "inv"
			fs.Requires = append(fs.Requires, r)
			fs.Ensures = append(fs.Ensures, r)
		}
	}
	allContracts = cs
	return cs, nil
}

func loadProgram(repo string, cs *Contracts, pkgPaths []string, overlay map[string][]byte) (*Program, error) {
	fset := token.NewFileSet()
	cfg := &packages.Config{
		Mode: packages.NeedName | packages.NeedFiles | packages.NeedSyntax | packages.NeedTypes | packages.NeedTypesInfo |
			packages.NeedImports | packages.NeedCompiledGoFiles,
		Dir:        repo,
		Fset:       fset,
		BuildFlags: []string{"-tags=verif"},
		Overlay:    overlay,
		Env:        append(os.Environ(), "GOFLAGS=-mod=readonly", "GOPROXY=off", "GOSUMDB=off", "GOTOOLCHAIN=local"),
	}
	var pkgs []*packages.Package
	if len(pkgPaths) > 0 {
		var err error
		pkgs, err = packages.Load(cfg, pkgPaths...)
		if err != nil {
			return nil, err
		}
	}
	p := &Program{fset: fset, pkgs: map[string]*packages.Package{}, funcs: map[string]*FuncInfo{}, contracts: cs, repo: repo,
		allPkgs: map[string]*types.Package{}, typeIDs: map[string]int{}, aliases: map[string]map[string]string{}}
	for _, pkg := range pkgs {
		if len(pkg.Errors) > 0 {
			var msgs []string
			for _, e := range pkg.Errors {
				msgs = append(msgs, e.Error())
			}
			return nil, fmt.Errorf("package %s has errors: %s", pkg.PkgPath, strings.Join(msgs, "; "))
		}
		p.pkgs[pkg.PkgPath] = pkg
		for _, file := range pkg.Syntax {
			for _, imp := range file.Imports {
				if imp.Name != nil && imp.Name.Name != "_" && imp.Name.Name != "." {
					if p.aliases[pkg.PkgPath] == nil {
						p.aliases[pkg.PkgPath] = map[string]string{}
					}
					p.aliases[pkg.PkgPath][imp.Name.Name] = strings.Trim(imp.Path.Value, "\"")
				}
			}
			for _, d := range file.Decls {
				fd, ok := d.(*ast.FuncDecl)
				if !ok || fd.Body == nil {
					continue
				}
				obj, ok := pkg.TypesInfo.Defs[fd.Name].(*types.Func)
				if !ok {
					continue
				}
				p.funcs[obj.FullName()] = &FuncInfo{Decl: fd, Pkg: pkg, Obj: obj}
			}
		}
	}
	var visit func(tp *types.Package)
	visit = func(tp *types.Package) {
		if tp == nil || p.allPkgs[tp.Path()] != nil {
			return
		}
		p.allPkgs[tp.Path()] = tp
		for _, imp := range tp.Imports() {
			visit(imp)
		}
	}
	for _, pkg := range pkgs {
		visit(pkg.Types)
	}
	if err := p.buildSpecPrelude(); err != nil {
		return nil, err
	}
	return p, nil
}

// globalInit: the constant initialiser of a package-level variable of the repository, if it is a
// string or integer literal. Such variables (storage-key prefixes, method names) are treated as
// constants: assumption "package-level variables initialised with a literal are never reassigned".
func (p *Program) globalInit(o *types.Var) (constant.Value, bool) {
	if o.Pkg() == nil || !strings.HasPrefix(o.Pkg().Path(), modulePath) {
		return nil, false
	}
	path := o.Pkg().Path()
	if p.globalInits == nil {
		p.globalInits = map[string]map[string]constant.Value{}
	}
	m, ok := p.globalInits[path]
	if !ok {
		m = map[string]constant.Value{}
		p.globalInits[path] = m
		dir := filepath.Join(p.repo, strings.TrimPrefix(strings.TrimPrefix(path, modulePath), "/"))
		files, _ := filepath.Glob(filepath.Join(dir, "*.go"))
		fset := token.NewFileSet()
		for _, fn := range files {
			if strings.HasSuffix(fn, "_test.go") {
				continue
			}
			f, err := parser.ParseFile(fset, fn, nil, 0)
			if err != nil {
				continue
			}
			for _, d := range f.Decls {
				gd, ok := d.(*ast.GenDecl)
				if !ok || gd.Tok != token.VAR {
					continue
				}
				for _, sp := range gd.Specs {
					vs := sp.(*ast.ValueSpec)
					if len(vs.Values) != len(vs.Names) {
						continue
					}
					for i, name := range vs.Names {
						if bl, ok := vs.Values[i].(*ast.BasicLit); ok && (bl.Kind == token.STRING || bl.Kind == token.INT) {
							m[name.Name] = constant.MakeFromLiteral(bl.Value, bl.Kind, 0)
						}
					}
				}
			}
		}
	}
	v, ok := m[o.Name()]
	return v, ok
}

func (p *Program) typeID(t types.Type) int {
	k := typeKey(t)
	if id, ok := p.typeIDs[k]; ok {
		return id
	}
	id := len(p.typeIDs) + 1
	p.typeIDs[k] = id
	return id
}

// buildSpecPrelude renders sorts, raw SMT declarations, uninterpreted spec functions and axioms.
func (p *Program) buildSpecPrelude() error {
	var sb strings.Builder
	for _, d := range p.contracts.SMTDecls {
		sb.WriteString(d)
		sb.WriteString("\n")
	}
	var names []string
	for n := range p.contracts.SpecFns {
		names = append(names, n)
	}
	sort.Strings(names)
	// uninterpreted first, then raw-SMT-defined in file order
	for _, n := range names {
		sf := p.contracts.SpecFns[n]
		if sf.Body == "" && sf.SMT == "" {
			var ss []string
			for _, prm := range sf.Params {
				s, err := p.sortOfTypeText(prm.Type, nil)
				if err != nil {
					return fmt.Errorf("%s:%d: %v", sf.File, sf.Line, err)
				}
				ss = append(ss, string(s))
			}
			rs, err := p.sortOfTypeText(sf.Ret, nil)
			if err != nil {
				return fmt.Errorf("%s:%d: %v", sf.File, sf.Line, err)
			}
			fmt.Fprintf(&sb, "(declare-fun %s (%s) %s)\n", smtSym(sf.Name), strings.Join(ss, " "), rs)
		}
	}
	var smtFns []*SpecFunc
	for _, n := range names {
		if sf := p.contracts.SpecFns[n]; sf.SMT != "" {
			smtFns = append(smtFns, sf)
		}
	}
	sort.Slice(smtFns, func(i, j int) bool {
		if smtFns[i].File != smtFns[j].File {
			return smtFns[i].File < smtFns[j].File
		}
		return smtFns[i].Line < smtFns[j].Line
	})
	for _, sf := range smtFns {
		var ps []string
		for _, prm := range sf.Params {
			s, err := p.sortOfTypeText(prm.Type, nil)
			if err != nil {
				return fmt.Errorf("%s:%d: %v", sf.File, sf.Line, err)
			}
			ps = append(ps, fmt.Sprintf("(%s %s)", prm.Name, s))
		}
		rs, err := p.sortOfTypeText(sf.Ret, nil)
		if err != nil {
			return fmt.Errorf("%s:%d: %v", sf.File, sf.Line, err)
		}
		kw := "define-fun"
		if strings.Contains(sf.SMT, "("+sf.Name+" ") {
			kw = "define-fun-rec"
		}
		fmt.Fprintf(&sb, "(%s %s (%s) %s %s)\n", kw, smtSym(sf.Name), strings.Join(ps, " "), rs, sf.SMT)
	}
	for _, a := range p.contracts.Axioms {
		// "name: (assert ...)"
		if i := strings.Index(a, ":"); i >= 0 {
			sb.WriteString(strings.TrimSpace(a[i+1:]))
			sb.WriteString("\n")
		}
	}
	p.specPrelude = sb.String()
	return nil
}

// sortOfTypeText: the SMT sort of a single-component type written in contract syntax.
func (p *Program) sortOfTypeText(text string, pkg *types.Package) (Sort, error) {
	t, err := p.resolveTypeText(text, pkg)
	if err != nil {
		return "", err
	}
	l := layoutOf(t)
	if len(l.Comps) != 1 {
		return "", fmt.Errorf("type %s is not a single SMT component", text)
	}
	return l.Comps[0].Sort, nil
}
