package main

// Library functions whose semantics are built in (exact definitions, not axioms):
// encoding/binary byte (de)composition.

import (
	"go/ast"
	"go/types"
)

type nativeFn func(x *X, f *Frame, st *State, call *ast.CallExpr, recv *Value, args []Value) []Value

var nativeFuncs = map[string]nativeFn{}

func init() {
	for _, e := range []struct {
		recv string
		big  bool
	}{{"(encoding/binary.littleEndian)", false}, {"(encoding/binary.bigEndian)", true}} {
		for _, w := range []int{2, 4, 8} {
			w, big := w, e.big
			nativeFuncs[e.recv+".Uint"+itoa(w*8)] = func(x *X, f *Frame, st *State, call *ast.CallExpr, recv *Value, args []Value) []Value {
				return []Value{x.binaryGet(st, call, args[0], w, big)}
			}
			nativeFuncs[e.recv+".PutUint"+itoa(w*8)] = func(x *X, f *Frame, st *State, call *ast.CallExpr, recv *Value, args []Value) []Value {
				x.binaryPut(st, call, args[0], args[1], w, big)
				return nil
			}
		}
	}
}

func itoa(n int) string {
	if n == 0 {
		return "0"
	}
	s := ""
	for n > 0 {
		s = string(rune('0'+n%10)) + s
		n /= 10
	}
	return s
}

var uintTypes = map[int]types.Type{2: types.Typ[types.Uint16], 4: types.Typ[types.Uint32], 8: types.Typ[types.Uint64]}

func (x *X) binaryGet(st *State, call *ast.CallExpr, b Value, w int, big bool) Value {
	ref, off, ln, _ := sliceParts(b)
	x.panicCheck(st, "index", bvcmp("bvuge", ln, BVInt(int64(w), 64)), call.Pos(), "binary.Uint: slice shorter than the integer")
	inner := x.c.innerArr(st, tUint8, 0, ref)
	var acc *Term
	for i := 0; i < w; i++ {
		// most significant byte first in acc
		idx := i
		if !big {
			idx = w - 1 - i
		}
		by := Select(inner, bvbin("bvadd", off, BVInt(int64(idx), 64)))
		if acc == nil {
			acc = by
		} else {
			acc = Concat(acc, by)
		}
	}
	return scalar(uintTypes[w], x.c.define("le", acc))
}

func (x *X) binaryPut(st *State, call *ast.CallExpr, b Value, v Value, w int, big bool) {
	ref, off, ln, _ := sliceParts(b)
	x.panicCheck(st, "index", bvcmp("bvuge", ln, BVInt(int64(w), 64)), call.Pos(), "binary.PutUint: slice shorter than the integer")
	inner := x.c.innerArr(st, tUint8, 0, ref)
	val := v.S()
	for i := 0; i < w; i++ {
		// byte i in memory
		var by *Term
		if big {
			by = Extract(8*(w-i)-1, 8*(w-i)-8, val)
		} else {
			by = Extract(8*i+7, 8*i, val)
		}
		inner = Store(inner, bvbin("bvadd", off, BVInt(int64(i), 64)), by)
	}
	x.c.setInnerArr(st, tUint8, 0, ref, x.c.define("put", inner))
}
