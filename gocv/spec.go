package main

// Contract files: comment-only Go files `contracts_verif.go` (build tag verif) inside
// /repo packages, plus /verif/contracts/*.cv for library functions. Only lines that
// start with `//@` (or, in .cv files, any non-comment line) are read.

import (
	"fmt"
	"go/ast"
	"go/parser"
	"os"
	"path/filepath"
	"regexp"
	"strconv"
	"strings"
)

type Clause struct {
	Name string
	Text string
	Expr *SpecExpr
	File string
	Line int
}

type GhostStmt struct {
	Anchor string // normalised statement text; "" = function entry
	Where  string // after | before
	Kind   string // assert | assume | set
	Target string // for set
	Text   string
	Expr   *SpecExpr
	Name   string
	File   string
	Line   int
	used   bool
}

type CallsiteReq struct {
	Callee string
	Ord    int
	Clause Clause
	used   bool
}

type FuncSpec struct {
	Key       string // types.Func FullName
	Short     string
	PkgPath   string
	Mode      string // precise | abstract
	Requires  []Clause
	Ensures   []Clause
	Assumes   []Clause
	Modifies  []string
	ModAll    bool // modifies * (everything reachable from arguments)
	ModNothing bool // explicit `modifies nothing`
	LoopInv   map[int][]Clause
	LoopDec   map[int]*Clause
	LoopMod   map[int][]string
	Ghost     []*GhostStmt
	Callsites []*CallsiteReq
	Props     []string
	Trusted   bool // contract assumed; body not verified
	Extern    bool // library function (no body in /repo)
	Inline    bool // callers execute the body (accessor-like helpers)
	Pure      bool
	NoPanic   string // "", on, off
	Fresh     []string
	File      string
	Line      int
	Params    []string // for extern funcs declared with a signature
	GhostVars []GhostVar
	Skip      bool
	Reveal    []string
	PerReturn bool
	Cases     bool // postmode cases: postconditions also split by the branches merged into each return
	Unroll    map[int]int
}

type GhostVar struct {
	Name string
	Type string
	Init string
}

type SpecFunc struct {
	Name   string
	Params []SpecParam
	Ret    string
	Body   string // expression text (macro) or "" for uninterpreted
	SMT    string // raw SMT definition text
	Expr   *SpecExpr
	File   string
	Line   int
	Opaque bool
	PkgPath string // package whose scope resolves the identifiers of the body
}

type SpecParam struct{ Name, Type string }

type Lemma struct {
	Name   string
	Params []SpecParam
	Text   string
	SMT    string // raw SMT goal (closed formula) — proved as obligation
	Props  []string
	File   string
	Line   int
}

type Contracts struct {
	Funcs    map[string]*FuncSpec
	SpecFns  map[string]*SpecFunc
	Lemmas   []*Lemma
	SMTDecls []string // raw prelude text, in order
	Axioms   []string // raw (assert ...) with names, listed as assumptions
	InvOf    map[string][]Clause // type key -> invariants
	ghostGlobals map[string]string
	Files    []string
}

func newContracts() *Contracts {
	return &Contracts{Funcs: map[string]*FuncSpec{}, SpecFns: map[string]*SpecFunc{}, InvOf: map[string][]Clause{}, ghostGlobals: map[string]string{}}
}

// SpecExpr: Go expression syntax plus ==>, <==>, forall/exists.
type SpecExpr struct {
	Kind  string // go | implies | iff | forall | exists
	Go    ast.Expr
	Subs  map[string]*SpecExpr // placeholders inside Go
	L, R  *SpecExpr
	Binds []SpecParam
	Text  string
}

var reFuncHdr = regexp.MustCompile(`^(extern\s+)?func\s+(.+)$`)

// loadContractFile parses one file. pkgPath is the import path for in-repo files ("" for .cv).
func (cs *Contracts) loadContractFile(path, pkgPath string) error {
	data, err := os.ReadFile(path)
	if err != nil {
		return err
	}
	cs.Files = append(cs.Files, path)
	isCV := strings.HasSuffix(path, ".cv")
	var cur *FuncSpec
	lines := strings.Split(string(data), "\n")
	// join continuation lines: a line ending with `\` continues
	for i := 0; i < len(lines); i++ {
		raw := lines[i]
		line := strings.TrimSpace(raw)
		if isCV {
			if strings.HasPrefix(line, "--") || strings.HasPrefix(line, "#") {
				continue
			}
		} else {
			if !strings.HasPrefix(line, "//@") {
				continue
			}
			line = strings.TrimSpace(line[3:])
		}
		if idx := strings.Index(line, " -- "); idx >= 0 {
			line = strings.TrimSpace(line[:idx])
		}
		if line == "" || strings.HasPrefix(line, "--") {
			continue
		}
		lineNo := i + 1
		for strings.HasSuffix(line, "\\") && i+1 < len(lines) {
			i++
			nxt := strings.TrimSpace(lines[i])
			if !isCV {
				nxt = strings.TrimSpace(strings.TrimPrefix(nxt, "//@"))
			}
			line = strings.TrimSpace(strings.TrimSuffix(line, "\\")) + " " + nxt
		}
		word, rest := splitWord(line)
		switch word {
		case "package":
			pkgPath = rest
			continue
		case "smt":
			// raw SMT prelude line(s)
			cs.SMTDecls = append(cs.SMTDecls, rest)
			continue
		case "axiom":
			// axiom name: (assert ...)
			cs.Axioms = append(cs.Axioms, rest)
			continue
		case "sort":
			// sort Name = smt-sort
			parts := strings.SplitN(rest, "=", 2)
			if len(parts) != 2 {
				return fmt.Errorf("%s:%d: bad sort decl", path, lineNo)
			}
			specSortReg[strings.TrimSpace(parts[0])] = Sort(strings.TrimSpace(parts[1]))
			continue
		case "ghostglobal":
			// ghostglobal Name Type  -- ghost state shared by all functions (single SMT component)
			w2, r2 := splitWord(rest)
			if w2 == "" || r2 == "" {
				return fmt.Errorf("%s:%d: ghostglobal Name Type", path, lineNo)
			}
			cs.ghostGlobals[w2] = r2
			continue
		case "uf", "spec":
			sf, err := parseSpecFunc(word, rest)
			if err != nil {
				return fmt.Errorf("%s:%d: %v", path, lineNo, err)
			}
			sf.File, sf.Line = path, lineNo
			sf.PkgPath = pkgPath
			if prev, dup := cs.SpecFns[sf.Name]; dup {
				// one global namespace: a second definition would silently replace the first in every contract
				return fmt.Errorf("%s:%d: spec function %s is already defined at %s:%d", path, lineNo, sf.Name, prev.File, prev.Line)
			}
			cs.SpecFns[sf.Name] = sf
			cur = nil
			continue
		case "lemma":
			lm, err := parseLemma(rest)
			if err != nil {
				return fmt.Errorf("%s:%d: %v", path, lineNo, err)
			}
			lm.File, lm.Line = path, lineNo
			cs.Lemmas = append(cs.Lemmas, lm)
			cur = nil
			continue
		case "invariant-of":
			parts := strings.SplitN(rest, "::", 2)
			if len(parts) != 2 {
				return fmt.Errorf("%s:%d: invariant-of T :: expr", path, lineNo)
			}
			key := qualifyRecv(strings.TrimSpace(parts[0]), pkgPath)
			cs.InvOf[key] = append(cs.InvOf[key], Clause{Text: strings.TrimSpace(parts[1]), File: path, Line: lineNo})
			continue
		}
		if m := reFuncHdr.FindStringSubmatch(line); m != nil {
			name := strings.TrimSpace(m[2])
			fs := &FuncSpec{Short: name, PkgPath: pkgPath, LoopInv: map[int][]Clause{}, LoopDec: map[int]*Clause{}, LoopMod: map[int][]string{},
				File: path, Line: lineNo, Unroll: map[int]int{}, PerReturn: true}
			if m[1] != "" {
				fs.Extern = true
				fs.Trusted = true
			}
			fs.Key = qualifyFunc(name, pkgPath)
			if _, dup := cs.Funcs[fs.Key]; dup {
				return fmt.Errorf("%s:%d: duplicate contract for %s", path, lineNo, fs.Key)
			}
			cs.Funcs[fs.Key] = fs
			cur = fs
			continue
		}
		if cur == nil {
			return fmt.Errorf("%s:%d: clause outside a func block: %s", path, lineNo, line)
		}
		name := ""
		if j := strings.Index(word, "["); j > 0 && strings.HasSuffix(word, "]") {
			name = word[j+1 : len(word)-1]
			word = word[:j]
		}
		cl := Clause{Name: name, Text: rest, File: path, Line: lineNo}
		switch word {
		case "mode":
			cur.Mode = rest
		case "requires":
			cur.Requires = append(cur.Requires, cl)
		case "ensures":
			cur.Ensures = append(cur.Ensures, cl)
		case "assumes":
			// postcondition assumed at call sites but not proved from the body (listed as assumption)
			cur.Assumes = append(cur.Assumes, cl)
		case "modifies":
			for _, m := range splitTop(rest, ',') {
				m = strings.TrimSpace(m)
				if m == "*" {
					cur.ModAll = true
				} else if m == "nothing" {
					cur.ModNothing = true
				} else if m != "" {
					cur.Modifies = append(cur.Modifies, m)
				}
			}
		case "fresh":
			for _, m := range splitTop(rest, ',') {
				cur.Fresh = append(cur.Fresh, strings.TrimSpace(m))
			}
		case "property":
			for _, p := range strings.FieldsFunc(rest, func(r rune) bool { return r == ',' || r == ' ' }) {
				cur.Props = append(cur.Props, p)
			}
		case "trusted":
			cur.Trusted = true
		case "inline":
			cur.Inline = true
		case "pure":
			cur.Pure = true
		case "reveal":
			for _, r := range strings.FieldsFunc(rest, func(r rune) bool { return r == ',' || r == ' ' }) {
				cur.Reveal = append(cur.Reveal, r)
			}
		case "skip":
			cur.Skip = true
		case "postmode":
			if rest == "cases" {
				// per return site and, within one, per branch state merged into it (the goal is then
				// proved under each branch's path condition separately: no reasoning through ite-merged heaps)
				cur.Cases = true
			} else {
				cur.PerReturn = rest == "per-return"
			}
		case "nopanic":
			cur.NoPanic = rest
		case "loop":
			// loop <n> invariant|decreases|modifies|unroll <expr>
			w2, r2 := splitWord(rest)
			n, err := strconv.Atoi(w2)
			if err != nil {
				return fmt.Errorf("%s:%d: loop ordinal expected", path, lineNo)
			}
			w3, r3 := splitWord(r2)
			lname := ""
			if j := strings.Index(w3, "["); j > 0 && strings.HasSuffix(w3, "]") {
				lname = w3[j+1 : len(w3)-1]
				w3 = w3[:j]
			}
			lc := Clause{Name: lname, Text: r3, File: path, Line: lineNo}
			switch w3 {
			case "invariant":
				cur.LoopInv[n] = append(cur.LoopInv[n], lc)
			case "decreases":
				cur.LoopDec[n] = &lc
			case "modifies":
				for _, m := range splitTop(r3, ',') {
					cur.LoopMod[n] = append(cur.LoopMod[n], strings.TrimSpace(m))
				}
			case "unroll":
				k, _ := strconv.Atoi(strings.TrimSpace(r3))
				cur.Unroll[n] = k
			default:
				return fmt.Errorf("%s:%d: unknown loop clause %q", path, lineNo, w3)
			}
		case "ghost":
			// ghost var name type [= init]
			w2, r2 := splitWord(rest)
			if w2 == "var" {
				gv := GhostVar{}
				parts := strings.SplitN(r2, "=", 2)
				nt := strings.Fields(parts[0])
				if len(nt) < 2 {
					return fmt.Errorf("%s:%d: ghost var name type", path, lineNo)
				}
				gv.Name, gv.Type = nt[0], strings.Join(nt[1:], " ")
				if len(parts) == 2 {
					gv.Init = strings.TrimSpace(parts[1])
				}
				cur.GhostVars = append(cur.GhostVars, gv)
				break
			}
			return fmt.Errorf("%s:%d: unknown ghost clause", path, lineNo)
		case "assert", "assume", "set":
			// assert[name] after "<stmt>" : expr      |  set after "<stmt>" : target = expr
			g, err := parseGhostStmt(word, rest)
			if err != nil {
				return fmt.Errorf("%s:%d: %v", path, lineNo, err)
			}
			g.Name = name
			g.File, g.Line = path, lineNo
			cur.Ghost = append(cur.Ghost, g)
		case "snapshot":
			// snapshot NAME before|after "<stmt>" | before|after loop N | entry :
			// remembers the whole state at that point; `at(NAME, expr)` evaluates expr in it
			sn, r2 := splitWord(rest)
			g, err := parseGhostStmt(word, r2)
			if err != nil {
				return fmt.Errorf("%s:%d: %v", path, lineNo, err)
			}
			g.Target = sn
			g.File, g.Line = path, lineNo
			cur.Ghost = append(cur.Ghost, g)
		case "callsite":
			// callsite Callee#k requires expr
			w2, r2 := splitWord(rest)
			w3, r3 := splitWord(r2)
			if w3 != "requires" {
				return fmt.Errorf("%s:%d: callsite X#k requires expr", path, lineNo)
			}
			callee, ord := w2, 1
			if j := strings.LastIndex(w2, "#"); j > 0 {
				callee = w2[:j]
				ord, _ = strconv.Atoi(w2[j+1:])
			}
			cur.Callsites = append(cur.Callsites, &CallsiteReq{Callee: callee, Ord: ord, Clause: Clause{Name: name, Text: r3, File: path, Line: lineNo}})
		default:
			return fmt.Errorf("%s:%d: unknown clause %q", path, lineNo, word)
		}
	}
	return nil
}

func splitWord(s string) (string, string) {
	s = strings.TrimSpace(s)
	i := strings.IndexAny(s, " \t")
	if i < 0 {
		return s, ""
	}
	return s[:i], strings.TrimSpace(s[i+1:])
}

// qualifyFunc turns "(*T).M" / "(T).M" / "F" / "path.F" into types.Func.FullName form.
func qualifyFunc(name, pkgPath string) string {
	if strings.HasPrefix(name, "(") {
		end := strings.Index(name, ")")
		recv := name[1:end]
		rest := name[end+1:]
		star := ""
		if strings.HasPrefix(recv, "*") {
			star = "*"
			recv = recv[1:]
		}
		if !strings.Contains(recv, ".") || !strings.Contains(recv, "/") && pkgPath != "" && !strings.Contains(recv, ".") {
			recv = pkgPath + "." + recv
		}
		return "(" + star + recv + ")" + rest
	}
	if strings.Contains(name, "/") || pkgPath == "" {
		return name
	}
	if strings.Contains(name, ".") {
		// already qualified with a package path without slash (e.g. bytes.Equal)
		return name
	}
	return pkgPath + "." + name
}

func qualifyRecv(name, pkgPath string) string {
	name = strings.Trim(name, "()")
	star := ""
	if strings.HasPrefix(name, "*") {
		star = "*"
		name = name[1:]
	}
	if !strings.Contains(name, ".") {
		name = pkgPath + "." + name
	}
	return star + name
}

func parseParams(s string) ([]SpecParam, error) {
	var ps []SpecParam
	for _, p := range splitTop(s, ',') {
		p = strings.TrimSpace(p)
		if p == "" {
			continue
		}
		f := strings.Fields(p)
		if len(f) < 2 {
			return nil, fmt.Errorf("bad param %q", p)
		}
		ps = append(ps, SpecParam{f[0], strings.Join(f[1:], " ")})
	}
	return ps, nil
}

// uf name(a T, b U) R
// spec name(a T) R = expr        (macro, expanded at use)
// spec name(a T) R = smt "..."   (raw SMT body over parameter names; may be recursive)
func parseSpecFunc(kind, rest string) (*SpecFunc, error) {
	lp := strings.Index(rest, "(")
	rp := matchParen(rest, lp)
	if lp < 0 || rp < 0 {
		return nil, fmt.Errorf("bad spec function header: %s", rest)
	}
	sf := &SpecFunc{Name: strings.TrimSpace(rest[:lp])}
	if strings.HasPrefix(sf.Name, "opaque ") {
		// opaque: expanded only inside functions that `reveal` it; an uninterpreted function elsewhere
		sf.Opaque = true
		sf.Name = strings.TrimSpace(strings.TrimPrefix(sf.Name, "opaque "))
	}
	ps, err := parseParams(rest[lp+1 : rp])
	if err != nil {
		return nil, err
	}
	sf.Params = ps
	tail := strings.TrimSpace(rest[rp+1:])
	if kind == "uf" {
		sf.Ret = tail
		return sf, nil
	}
	parts := strings.SplitN(tail, "=", 2)
	if len(parts) != 2 {
		return nil, fmt.Errorf("spec function needs '= body'")
	}
	sf.Ret = strings.TrimSpace(parts[0])
	body := strings.TrimSpace(parts[1])
	if strings.HasPrefix(body, "smt ") {
		q, err := strconv.Unquote(strings.TrimSpace(body[4:]))
		if err != nil {
			return nil, fmt.Errorf("bad smt string: %v", err)
		}
		sf.SMT = q
	} else {
		sf.Body = body
	}
	return sf, nil
}

// lemma name(params): expr       or   lemma name: smt "closed formula"
func parseLemma(rest string) (*Lemma, error) {
	colon := strings.Index(rest, ":")
	if colon < 0 {
		return nil, fmt.Errorf("lemma name(params): statement")
	}
	hdr := strings.TrimSpace(rest[:colon])
	// the colon might be inside params? params never contain ':'
	lm := &Lemma{}
	if lp := strings.Index(hdr, "("); lp >= 0 {
		lm.Name = strings.TrimSpace(hdr[:lp])
		ps, err := parseParams(hdr[lp+1 : strings.LastIndex(hdr, ")")])
		if err != nil {
			return nil, err
		}
		lm.Params = ps
	} else {
		f := strings.Fields(hdr)
		lm.Name = f[0]
		for _, w := range f[1:] {
			if strings.HasPrefix(w, "property=") {
				lm.Props = strings.Split(strings.TrimPrefix(w, "property="), ",")
			}
		}
	}
	body := strings.TrimSpace(rest[colon+1:])
	if strings.HasPrefix(body, "property=") {
		w, r := splitWord(body)
		lm.Props = strings.Split(strings.TrimPrefix(w, "property="), ",")
		body = r
	}
	if strings.HasPrefix(body, "smt ") {
		q, err := strconv.Unquote(strings.TrimSpace(body[4:]))
		if err != nil {
			return nil, fmt.Errorf("bad smt string: %v", err)
		}
		lm.SMT = q
	} else {
		lm.Text = body
	}
	return lm, nil
}

func parseGhostStmt(kind, rest string) (*GhostStmt, error) {
	g := &GhostStmt{Kind: kind}
	w, r := splitWord(rest)
	switch w {
	case "after", "before":
		g.Where = w
		r = strings.TrimSpace(r)
		if strings.HasPrefix(r, "loop ") {
			// before/after loop N : expr
			w2, r2 := splitWord(r[5:])
			w2 = strings.TrimSuffix(w2, ":")
			g.Anchor = "loop#" + w2
			r = strings.TrimSpace(strings.TrimPrefix(strings.TrimSpace(r2), ":"))
			break
		}
		if !strings.HasPrefix(r, "\"") {
			return nil, fmt.Errorf("anchor string expected")
		}
		end := 1
		for end < len(r) && r[end] != '"' {
			if r[end] == '\\' {
				end++
			}
			end++
		}
		anchor, err := strconv.Unquote(r[:end+1])
		if err != nil {
			return nil, err
		}
		g.Anchor = normStmt(anchor)
		r = strings.TrimSpace(r[end+1:])
		r = strings.TrimSpace(strings.TrimPrefix(r, ":"))
	case "entry":
		g.Where = "entry"
		r = strings.TrimSpace(strings.TrimPrefix(r, ":"))
	default:
		return nil, fmt.Errorf("ghost statement needs after/before/entry")
	}
	if kind == "set" {
		parts := strings.SplitN(r, ":=", 2)
		if len(parts) != 2 {
			return nil, fmt.Errorf("set target := expr")
		}
		g.Target = strings.TrimSpace(parts[0])
		g.Text = strings.TrimSpace(parts[1])
	} else {
		g.Text = r
	}
	return g, nil
}

func normStmt(s string) string { return strings.Join(strings.Fields(s), " ") }

func matchParen(s string, open int) int {
	if open < 0 {
		return -1
	}
	depth := 0
	for i := open; i < len(s); i++ {
		switch s[i] {
		case '(':
			depth++
		case ')':
			depth--
			if depth == 0 {
				return i
			}
		}
	}
	return -1
}

// splitTop splits on sep at bracket depth 0.
func splitTop(s string, sep byte) []string {
	var out []string
	depth := 0
	start := 0
	inStr := false
	for i := 0; i < len(s); i++ {
		c := s[i]
		if inStr {
			if c == '\\' {
				i++
			} else if c == '"' {
				inStr = false
			}
			continue
		}
		switch c {
		case '"':
			inStr = true
		case '(', '[', '{':
			depth++
		case ')', ']', '}':
			depth--
		default:
			if c == sep && depth == 0 {
				out = append(out, s[start:i])
				start = i + 1
			}
		}
	}
	out = append(out, s[start:])
	return out
}

// indexTop finds the first occurrence of tok at depth 0.
func indexTop(s, tok string) int {
	depth := 0
	inStr := false
	for i := 0; i < len(s); i++ {
		c := s[i]
		if inStr {
			if c == '\\' {
				i++
			} else if c == '"' {
				inStr = false
			}
			continue
		}
		switch c {
		case '"':
			inStr = true
		case '(', '[', '{':
			depth++
		case ')', ']', '}':
			depth--
		}
		if depth == 0 && strings.HasPrefix(s[i:], tok) {
			return i
		}
	}
	return -1
}

// parseSpecExpr parses spec expression text.
func parseSpecExpr(text string) (*SpecExpr, error) {
	s := strings.TrimSpace(text)
	if s == "" {
		return nil, fmt.Errorf("empty expression")
	}
	for _, q := range []string{"forall", "exists"} {
		if strings.HasPrefix(s, q+" ") {
			sep := indexTop(s, "::")
			if sep < 0 {
				return nil, fmt.Errorf("%s without '::' in %q", q, s)
			}
			binds, err := parseParams(s[len(q)+1 : sep])
			if err != nil {
				return nil, err
			}
			body, err := parseSpecExpr(s[sep+2:])
			if err != nil {
				return nil, err
			}
			return &SpecExpr{Kind: q, Binds: binds, R: body, Text: s}, nil
		}
	}
	// a quantifier that starts before the first top-level implication owns the rest of the text
	preSubs := map[string]*SpecExpr{}
	{
		qi := -1
		for _, q := range []string{"forall ", "exists "} {
			if i := indexTop(s, q); i > 0 && !isIdentChar(s[i-1]) && (qi < 0 || i < qi) {
				qi = i
			}
		}
		ii := indexTop(s, "==>") // also matches the tail of <==>
		if qi > 0 && (ii < 0 || qi < ii) {
			sub, err := parseSpecExpr(s[qi:])
			if err != nil {
				return nil, err
			}
			preSubs["sub__p0"] = sub
			s = s[:qi] + "sub__p0"
		}
	}
	if len(preSubs) > 0 {
		inner, err := parseSpecExpr(s)
		if err != nil {
			return nil, err
		}
		attachSubs(inner, preSubs)
		return inner, nil
	}
	if i := indexTop(s, "<==>"); i >= 0 {
		l, err := parseSpecExpr(s[:i])
		if err != nil {
			return nil, err
		}
		r, err := parseSpecExpr(s[i+4:])
		if err != nil {
			return nil, err
		}
		return &SpecExpr{Kind: "iff", L: l, R: r, Text: s}, nil
	}
	if i := indexTop(s, "==>"); i >= 0 {
		l, err := parseSpecExpr(s[:i])
		if err != nil {
			return nil, err
		}
		r, err := parseSpecExpr(s[i+3:])
		if err != nil {
			return nil, err
		}
		return &SpecExpr{Kind: "implies", L: l, R: r, Text: s}, nil
	}
	// plain Go, but parenthesised groups may contain spec operators: replace by placeholders
	subs := map[string]*SpecExpr{}
	// a quantifier after a binary operator extends to the end of the expression
	for _, q := range []string{"forall ", "exists "} {
		if i := indexTop(s, q); i > 0 && !isIdentChar(s[i-1]) {
			sub, err := parseSpecExpr(s[i:])
			if err != nil {
				return nil, err
			}
			name := fmt.Sprintf("sub__q%d", len(subs))
			subs[name] = sub
			s = s[:i] + name
		}
	}
	var sb strings.Builder
	for i := 0; i < len(s); i++ {
		if s[i] == '"' {
			j := i + 1
			for j < len(s) && s[j] != '"' {
				if s[j] == '\\' {
					j++
				}
				j++
			}
			sb.WriteString(s[i : j+1])
			i = j
			continue
		}
		if s[i] == '(' {
			j := matchParen(s, i)
			if j < 0 {
				return nil, fmt.Errorf("unbalanced parens in %q", s)
			}
			inner := s[i+1 : j]
			if strings.Contains(inner, "==>") || strings.Contains(inner, "forall ") || strings.Contains(inner, "exists ") {
				// is it a call argument list? then split arguments
				isCall := i > 0 && (isIdentChar(s[i-1]) || s[i-1] == ']' || s[i-1] == ')')
				if isCall {
					args := splitTop(inner, ',')
					sb.WriteString("(")
					for k, a := range args {
						if k > 0 {
							sb.WriteString(", ")
						}
						if strings.Contains(a, "==>") || strings.Contains(a, "forall ") || strings.Contains(a, "exists ") {
							sub, err := parseSpecExpr(a)
							if err != nil {
								return nil, err
							}
							name := fmt.Sprintf("sub__%d", len(subs))
							subs[name] = sub
							sb.WriteString(name)
						} else {
							// may itself have nested groups: recurse through a sub expression too
							sb.WriteString(a)
						}
					}
					sb.WriteString(")")
				} else {
					sub, err := parseSpecExpr(inner)
					if err != nil {
						return nil, err
					}
					name := fmt.Sprintf("sub__%d", len(subs))
					subs[name] = sub
					sb.WriteString(name)
				}
				i = j
				continue
			}
		}
		sb.WriteByte(s[i])
	}
	e, err := parser.ParseExpr(sb.String())
	if err != nil {
		return nil, fmt.Errorf("cannot parse %q: %v", s, err)
	}
	return &SpecExpr{Kind: "go", Go: e, Subs: subs, Text: s}, nil
}

func attachSubs(e *SpecExpr, subs map[string]*SpecExpr) {
	if e == nil {
		return
	}
	if e.Kind == "go" {
		if e.Subs == nil {
			e.Subs = map[string]*SpecExpr{}
		}
		for k, v := range subs {
			if _, dup := e.Subs[k]; !dup {
				e.Subs[k] = v
			}
		}
		return
	}
	attachSubs(e.L, subs)
	attachSubs(e.R, subs)
}

func isIdentChar(c byte) bool {
	return c == '_' || c >= 'a' && c <= 'z' || c >= 'A' && c <= 'Z' || c >= '0' && c <= '9'
}

// findContractFiles lists every contracts_verif.go under root.
func findContractFiles(root string) ([]string, error) {
	var out []string
	err := filepath.Walk(root, func(p string, info os.FileInfo, err error) error {
		if err != nil {
			return nil
		}
		if info.IsDir() && (info.Name() == ".git" || info.Name() == "vendor") {
			return filepath.SkipDir
		}
		if !info.IsDir() && info.Name() == "contracts_verif.go" {
			out = append(out, p)
		}
		return nil
	})
	return out, err
}
