package main

import (
	"fmt"
	"go/types"
	"sort"
	"strings"
)

type WriteRec struct {
	Heap string
	Ref  *Term // nil = whole heap
	PC   *Term
}

type State struct {
	vars   map[types.Object]Value
	boxed  map[types.Object]*Term // address-taken locals live in the heap
	heaps  map[string]*Term
	hsorts map[string]Sort
	ghost  map[string]Value
	pc     *Term
	wlog   *[]WriteRec // when non-nil, heap writes are logged (loop dry runs)
	// heaps havocked by an unknown call but not read or written since: a fresh symbol is made
	// only when one of them is first used (an unknown call can reach thousands of heaps by type,
	// almost none of which the function under proof ever touches)
	lazy map[string]bool
	// an unknown call that can reach everything (empty interface, closure) was made: every Go
	// heap not in use yet is arbitrary from then on
	lazyAll bool
	// path conditions of the branch states merged into this one (most recent join; at most 4): the current
	// pc implies their disjunction, so an obligation may be proved under each of them separately
	cases []*Term
}

const lazyAllName = "$lazyAll"

func isGoHeap(name string) bool {
	return strings.HasPrefix(name, "H!") || strings.HasPrefix(name, "E!") || strings.HasPrefix(name, "M!")
}

func newState() *State {
	return &State{vars: map[types.Object]Value{}, boxed: map[types.Object]*Term{}, heaps: map[string]*Term{},
		hsorts: map[string]Sort{}, ghost: map[string]Value{}, pc: TTrue}
}

func (s *State) clone() *State {
	n := &State{vars: make(map[types.Object]Value, len(s.vars)), boxed: make(map[types.Object]*Term, len(s.boxed)),
		heaps: make(map[string]*Term, len(s.heaps)), hsorts: s.hsorts, ghost: make(map[string]Value, len(s.ghost)),
		pc: s.pc, wlog: s.wlog}
	for k, v := range s.vars {
		n.vars[k] = v
	}
	for k, v := range s.boxed {
		n.boxed[k] = v
	}
	for k, v := range s.heaps {
		n.heaps[k] = v
	}
	for k, v := range s.ghost {
		n.ghost[k] = v
	}
	n.lazyAll = s.lazyAll
	n.cases = s.cases
	if len(s.lazy) > 0 {
		n.lazy = make(map[string]bool, len(s.lazy))
		for k := range s.lazy {
			n.lazy[k] = true
		}
	}
	return n
}

// heap returns the current term of a named heap, creating its initial symbol lazily. The
// initial symbol is the same in every state (it denotes the heap at function entry).
func (c *Ctx) heap(s *State, name string, sort Sort) *Term {
	if c.heapRec != nil {
		c.heapRec[name] = sort
	}
	if t, ok := s.heaps[name]; ok {
		return t
	}
	if s.lazy[name] || (s.lazyAll && isGoHeap(name)) {
		// havocked earlier by an unknown call: arbitrary from here on
		t := c.fresh("hv", sort)
		s.heaps[name] = t
		s.hsorts[name] = sort
		delete(s.lazy, name)
		return t
	}
	return c.heap0(s, name, sort)
}

// lazyHavoc marks a heap as havocked without materialising a symbol for it.
func (c *Ctx) lazyHavoc(s *State, name string, sort Sort) {
	if _, ok := s.heaps[name]; ok {
		c.setHeap(s, name, c.fresh("hv", sort), nil)
		return
	}
	if s.lazy == nil {
		s.lazy = map[string]bool{}
	}
	s.lazy[name] = true
	if _, ok := s.hsorts[name]; !ok {
		s.hsorts[name] = sort
	}
	if s.wlog != nil {
		*s.wlog = append(*s.wlog, WriteRec{name, nil, s.pc})
	}
}

var heapInit = map[*Ctx]map[string]*Term{}

func (c *Ctx) heap0(s *State, name string, sort Sort) *Term {
	m := heapInit[c]
	if m == nil {
		m = map[string]*Term{}
		heapInit[c] = m
	}
	if t, ok := m[name]; ok {
		if t.Sort != sort {
			panic(fmt.Sprintf("heap %s used at sorts %s and %s", name, t.Sort, sort))
		}
		return t
	}
	sym := smtSym("H0!" + name)
	// initial heaps are declared in c.pre so that every obligation sees them
	c.pre = append(c.pre, fmt.Sprintf("(declare-const %s %s)", sym, sort))
	t := Sym(sym, sort, 0)
	m[name] = t
	s.hsorts[name] = sort
	return t
}

func (c *Ctx) setHeap(s *State, name string, t *Term, ref *Term) {
	s.heaps[name] = t
	s.hsorts[name] = t.Sort
	delete(s.lazy, name)
	if s.wlog != nil {
		*s.wlog = append(*s.wlog, WriteRec{name, ref, s.pc})
	}
}

const allocName = "$alloc"

func (c *Ctx) alloc(s *State) *Term { return c.heap(s, allocName, SRef) }

// newRef allocates a fresh non-nil reference.
func (c *Ctx) newRef(s *State, hint string) *Term {
	a := c.alloc(s)
	r := c.define(hint, a)
	// r == alloc; alloc' = alloc+1; no wrap
	c.assume(s.pc, bvcmp("bvult", a, Lit("#xfffffffffffffff0", SRef)))
	c.assume(s.pc, bvcmp("bvugt", a, BVInt(0, 64)))
	na := c.define("alloc", bvbin("bvadd", a, BVInt(1, 64)))
	s.heaps[allocName] = na
	if s.wlog != nil {
		// seen by an enclosing loop: the allocation counter is havocked (monotonically) at the loop head
		*s.wlog = append(*s.wlog, WriteRec{allocName, nil, s.pc})
	}
	return r
}

// pointer heaps ----------------------------------------------------------------------

func ptrHeapName(pointee types.Type, path string) string { return "H!" + typeKey(pointee) + path }
func elemHeapName(elem types.Type, path string) string   { return "E!" + typeKey(elem) + path }

func (c *Ctx) loadPtrRange(s *State, pointee types.Type, ref *Term, lo, hi int, t types.Type) Value {
	l := layoutOf(pointee)
	v := Value{T: t, C: make([]*Term, hi-lo)}
	for i := lo; i < hi; i++ {
		comp := l.Comps[i]
		h := c.heap(s, ptrHeapName(pointee, comp.Path), SArr(SRef, comp.Sort))
		v.C[i-lo] = Select(h, ref)
	}
	c.wfLoaded(s, l.Comps[lo:hi], v.C)
	return v
}

// wfLoaded assumes Go's slice type invariant for slices read from the heap (once per term).
func (c *Ctx) wfLoaded(s *State, comps []Comp, ts []*Term) {
	if c.wfSeen == nil {
		c.wfSeen = map[string]bool{}
	}
	for _, t := range ts {
		if t.Bound {
			return // under a quantifier: no ground fact can be stated
		}
	}
	// every reference stored in the heap was allocated before now
	for i, comp := range comps {
		if comp.Sort != SRef || i >= len(ts) {
			continue
		}
		isRef := false
		switch comp.T.Underlying().(type) {
		case *types.Pointer, *types.Map, *types.Interface, *types.Chan:
			isRef = true
		case *types.Slice:
			isRef = strings.HasSuffix(comp.Path, ".ref")
		}
		if !isRef {
			continue
		}
		key := "alloc:" + ts[i].String() + "@" + s.pc.String()
		if c.wfSeen[key] {
			continue
		}
		c.wfSeen[key] = true
		if ts[i].MaxSym <= c.entrySym && !strings.Contains(ts[i].String(), "$alloc") {
			// built from entry-state symbols only: the cell held this reference at function entry
			c.assume(TTrue, bvcmp("bvult", ts[i], c.heap0(s, allocName, SRef)))
		} else {
			c.assume(s.pc, bvcmp("bvult", ts[i], c.alloc(s)))
		}
	}
	for i := 0; i+3 < len(comps); i++ {
		if !strings.HasSuffix(comps[i].Path, ".ref") || !strings.HasSuffix(comps[i+3].Path, ".cap") {
			continue
		}
		if _, isSlice := comps[i].T.Underlying().(*types.Slice); !isSlice {
			continue
		}
		key := ts[i].String()
		if c.wfSeen == nil {
			c.wfSeen = map[string]bool{}
		}
		if c.wfSeen[key] {
			continue
		}
		c.wfSeen[key] = true
		ref, off, ln, cp := ts[i], ts[i+1], ts[i+2], ts[i+3]
		c.assume(TTrue, And(bvcmp("bvule", ln, cp), bvcmp("bvule", cp, sliceMax), bvcmp("bvule", off, sliceMax),
			Implies(Eq(ref, BVInt(0, 64)), Eq(cp, BVInt(0, 64)))))
	}
}

func (c *Ctx) loadPtr(s *State, pointee types.Type, ref *Term) Value {
	return c.loadPtrRange(s, pointee, ref, 0, len(layoutOf(pointee).Comps), pointee)
}

func (c *Ctx) storePtrRange(s *State, pointee types.Type, ref *Term, lo int, v Value) {
	l := layoutOf(pointee)
	for i, t := range v.C {
		comp := l.Comps[lo+i]
		if comp.Sort != t.Sort {
			panic(fmt.Sprintf("storePtr: sort mismatch at %s%s: %s vs %s", typeKey(pointee), comp.Path, comp.Sort, t.Sort))
		}
		name := ptrHeapName(pointee, comp.Path)
		h := c.heap(s, name, SArr(SRef, comp.Sort))
		c.setHeap(s, name, c.define("h", Store(h, ref, t)), ref)
	}
}

func (c *Ctx) storePtr(s *State, pointee types.Type, ref *Term, v Value) {
	c.storePtrRange(s, pointee, ref, 0, v)
}

// element heaps ----------------------------------------------------------------------

func (c *Ctx) elemHeap(s *State, elem types.Type, comp Comp) (string, *Term) {
	name := elemHeapName(elem, comp.Path)
	return name, c.heap(s, name, SArr(SRef, SArr(SBV(64), comp.Sort)))
}

// loadElem reads element idx (absolute index = off+i already added by caller) of backing array ref.
func (c *Ctx) loadElem(s *State, elem types.Type, ref, abs *Term) Value {
	l := layoutOf(elem)
	v := Value{T: elem, C: make([]*Term, len(l.Comps))}
	for i, comp := range l.Comps {
		_, h := c.elemHeap(s, elem, comp)
		v.C[i] = Select(Select(h, ref), abs)
	}
	c.wfLoaded(s, l.Comps, v.C)
	return v
}

func (c *Ctx) storeElemRange(s *State, elem types.Type, ref, abs *Term, lo int, v Value) {
	l := layoutOf(elem)
	for i, t := range v.C {
		comp := l.Comps[lo+i]
		name, h := c.elemHeap(s, elem, comp)
		inner := Select(h, ref)
		c.setHeap(s, name, c.define("e", Store(h, ref, Store(inner, abs, t))), ref)
	}
}

func (c *Ctx) storeElem(s *State, elem types.Type, ref, abs *Term, v Value) {
	c.storeElemRange(s, elem, ref, abs, 0, v)
}

// inner array of component ci of the backing array ref
func (c *Ctx) innerArr(s *State, elem types.Type, ci int, ref *Term) *Term {
	comp := layoutOf(elem).Comps[ci]
	_, h := c.elemHeap(s, elem, comp)
	return Select(h, ref)
}

func (c *Ctx) setInnerArr(s *State, elem types.Type, ci int, ref *Term, inner *Term) {
	comp := layoutOf(elem).Comps[ci]
	name, h := c.elemHeap(s, elem, comp)
	c.setHeap(s, name, c.define("e", Store(h, ref, inner)), ref)
}

// merge -------------------------------------------------------------------------------

// mergeStates joins two states that descend from a common ancestor; a's pc is the
// discriminator (the pcs are disjoint).
func (c *Ctx) mergeStates(a, b *State) *State {
	if a == nil {
		return b
	}
	if b == nil {
		return a
	}
	d := a.pc
	out := a.clone()
	out.pc = c.define("pc", Or(a.pc, b.pc))
	// remember what was joined (a join of joins keeps the leaves while they are few)
	leaves := func(s *State) []*Term {
		if len(s.cases) > 1 {
			var r []*Term
			for _, cs := range s.cases {
				r = append(r, And(s.pc, cs))
			}
			return r
		}
		return []*Term{s.pc}
	}
	out.cases = append(append([]*Term{}, leaves(a)...), leaves(b)...)
	if len(out.cases) > 4 {
		out.cases = []*Term{a.pc, b.pc}
	}
	// deterministic order (declaration position, then name): the symbol numbering of the
	// generated query must not depend on map iteration order, or solver behaviour varies run to run
	vkeys := make([]types.Object, 0, len(a.vars))
	for k := range a.vars {
		vkeys = append(vkeys, k)
	}
	sort.Slice(vkeys, func(i, j int) bool {
		if vkeys[i].Pos() != vkeys[j].Pos() {
			return vkeys[i].Pos() < vkeys[j].Pos()
		}
		return vkeys[i].Name() < vkeys[j].Name()
	})
	for _, k := range vkeys {
		av := a.vars[k]
		bv, ok := b.vars[k]
		if !ok {
			delete(out.vars, k) // declared in only one branch: out of scope after the join
			continue
		}
		if sameValue(av, bv) {
			continue
		}
		out.vars[k] = c.defineValue("m", iteValue(d, av, bv))
	}
	for k, ar := range a.boxed {
		br, ok := b.boxed[k]
		if !ok {
			delete(out.boxed, k)
			continue
		}
		out.boxed[k] = Ite(d, ar, br)
	}
	names := map[string]bool{}
	for k := range a.heaps {
		names[k] = true
	}
	for k := range b.heaps {
		names[k] = true
	}
	var ns []string
	for k := range names {
		ns = append(ns, k)
	}
	sort.Strings(ns)
	for _, k := range ns {
		at, aok := a.heaps[k]
		bt, bok := b.heaps[k]
		srt := a.hsorts[k]
		if !aok {
			at = c.heap(a, k, srt) // entry value, or a fresh one if havocked lazily on this path
		}
		if !bok {
			bt = c.heap(b, k, srt)
		}
		if at == bt {
			out.heaps[k] = at
			continue
		}
		out.heaps[k] = c.define("mh", Ite(d, at, bt))
		delete(out.lazy, k)
	}
	// a heap havocked lazily on either path and used on neither stays lazily havocked
	out.lazyAll = a.lazyAll || b.lazyAll
	for k := range b.lazy {
		if _, ok := out.heaps[k]; !ok {
			if out.lazy == nil {
				out.lazy = map[string]bool{}
			}
			out.lazy[k] = true
		}
	}
	gkeys := make([]string, 0, len(a.ghost))
	for k := range a.ghost {
		gkeys = append(gkeys, k)
	}
	sort.Strings(gkeys)
	for _, k := range gkeys {
		av := a.ghost[k]
		bv, ok := b.ghost[k]
		if !ok {
			continue
		}
		if !sameValue(av, bv) {
			out.ghost[k] = c.defineValue("mg", iteValue(d, av, bv))
		}
	}
	return out
}

func sameValue(a, b Value) bool {
	if len(a.C) != len(b.C) {
		return false
	}
	for i := range a.C {
		if a.C[i] != b.C[i] {
			return false
		}
	}
	return true
}

func (c *Ctx) mergeAll(states []*State) *State {
	var out *State
	for _, s := range states {
		if s == nil || s.pc.isFalse() {
			continue
		}
		out = c.mergeStates(s, out)
	}
	return out
}
