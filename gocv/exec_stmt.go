package main

import (
	"fmt"
	"go/ast"
	"go/constant"
	"go/token"
	"go/types"
)

// block executes statements in order; returns the fall-through state or nil.
func (x *X) block(f *Frame, st *State, stmts []ast.Stmt) *State {
	for _, s := range stmts {
		if st == nil || st.pc.isFalse() {
			return nil
		}
		st = x.stmtWithGhost(f, st, s)
	}
	return st
}

func (x *X) stmtText(f *Frame, s ast.Stmt) string {
	if t, ok := f.stmtText[s]; ok {
		return t
	}
	t := nodeText(x.prog.fset, s)
	f.stmtText[s] = t
	return t
}

func (x *X) stmtWithGhost(f *Frame, st *State, s ast.Stmt) *State {
	if f.spec != nil && len(f.spec.Ghost) > 0 && f.top {
		switch n := s.(type) {
		case *ast.IfStmt:
			// an if statement is anchored by its header: "if <init>; <cond>"
			txt := "if "
			if n.Init != nil {
				txt += nodeText(x.prog.fset, n.Init) + "; "
			}
			txt += nodeText(x.prog.fset, n.Cond)
			txt = normStmt(txt)
			x.runGhost(f, st, "before", txt, s.Pos())
			st = x.stmt(f, st, s)
			if st != nil {
				x.runGhost(f, st, "after", txt, n.Body.Lbrace)
			}
			return st
		case *ast.BlockStmt, *ast.ForStmt, *ast.RangeStmt, *ast.SwitchStmt, *ast.TypeSwitchStmt, *ast.LabeledStmt:
			// loops are anchored by ordinal (before/after loop N); other compound statements are not anchors
		default:
			txt := x.stmtText(f, s)
			x.runGhost(f, st, "before", txt, s.Pos())
			st = x.stmt(f, st, s)
			if st != nil {
				x.runGhost(f, st, "after", txt, s.End())
			}
			return st
		}
	}
	return x.stmt(f, st, s)
}

func (x *X) runGhost(f *Frame, st *State, where, txt string, pos token.Pos) {
	for _, g := range f.spec.Ghost {
		if g.Where != where || g.Anchor != txt {
			continue
		}
		g.used = true
		x.execGhost(f, st, g, pos)
	}
}

func (x *X) execGhost(f *Frame, st *State, g *GhostStmt, pos token.Pos) {
	if g.Kind == "snapshot" {
		if f.snaps == nil {
			f.snaps = map[string]*State{}
		}
		sn := st.clone()
		sn.wlog = nil
		f.snaps[g.Target] = sn
		return
	}
	if g.Expr == nil {
		pe, err := parseSpecExpr(g.Text)
		if err != nil {
			fail("%s:%d: %v", g.File, g.Line, err)
		}
		g.Expr = pe
	}
	env := x.specEnvFor(f, st, pos)
	switch g.Kind {
	case "assert":
		t := x.specBool(env, g.Expr)
		name := ""
		if g.Name != "" {
			name = "hint:" + g.Name
		}
		// one obligation per conjunct (as for postconditions and invariants): smaller queries
		if parts := splitGoal(t); len(parts) > 1 {
			for i, p := range parts {
				pn := ""
				if name != "" {
					pn = fmt.Sprintf("%s/%d", name, i+1)
				}
				x.c.obligeNamed(pn, "hint", st.pc, p, x.pos(pos), g.Text)
			}
		} else {
			x.c.obligeNamed(name, "hint", st.pc, t, x.pos(pos), g.Text)
		}
		x.c.assume(st.pc, t)
	case "assume":
		t := x.specBool(env, g.Expr)
		x.c.assumption(fmt.Sprintf("assume in %s: %s", x.c.fnName, g.Text))
		x.c.assume(st.pc, t)
	case "set":
		v := x.specEval(env, g.Expr)
		obj, ok := f.ghostVars[g.Target]
		if !ok {
			fail("%s:%d: unknown ghost variable %s", g.File, g.Line, g.Target)
		}
		v = x.typed(v, obj.Type())
		st.vars[obj] = Value{T: obj.Type(), C: v.C}
		if f.dryGhostSets != nil {
			f.dryGhostSets[g.Target] = true
		}
	}
}

func (x *X) specEnvFor(f *Frame, st *State, pos token.Pos) *SpecEnv {
	names := map[string]Value{}
	if f.top {
		// inside a loop body: the loop's iteration names (itN, seqN, cntN; it/seq/cnt for the innermost)
		for _, L := range f.activeLoops {
			for k, fn := range L.names {
				if k == "it" || k == "seq" || k == "cnt" {
					continue // the unnumbered aliases are for the loop's own invariants only
				}
				if v := fn(st); v.T != nil {
					names[k] = v
				}
			}
		}
	}
	return &SpecEnv{x: x, st: st, old: f.old, names: names, oldNames: f.entryNames, pkg: f.pkg, frame: f, pos: pos}
}

func (x *X) stmt(f *Frame, st *State, s ast.Stmt) *State {
	f.curPos = s.Pos()
	switch n := s.(type) {
	case *ast.BlockStmt:
		return x.block(f, st, n.List)
	case *ast.ExprStmt:
		if call, ok := stripParens(n.X).(*ast.CallExpr); ok {
			x.call(f, st, call)
			if st.pc.isFalse() {
				return nil
			}
			return st
		}
		x.expr(f, st, n.X)
		return st
	case *ast.AssignStmt:
		return x.assignStmt(f, st, n)
	case *ast.IncDecStmt:
		v := x.expr(f, st, n.X)
		one := constValue(constant.MakeInt64(1), v.T)
		op := token.ADD
		if n.Tok == token.DEC {
			op = token.SUB
		}
		x.assign(f, st, n.X, binop(op, v, one, nil))
		return st
	case *ast.DeclStmt:
		gd := n.Decl.(*ast.GenDecl)
		if gd.Tok != token.VAR {
			return st
		}
		for _, sp := range gd.Specs {
			vs := sp.(*ast.ValueSpec)
			if len(vs.Values) == 1 && len(vs.Names) > 1 {
				vals := x.multi(f, st, vs.Values[0])
				for i, name := range vs.Names {
					x.declare(f, st, name, vals[i])
				}
				continue
			}
			for i, name := range vs.Names {
				obj := f.info.Defs[name]
				if obj == nil {
					continue
				}
				var v Value
				if i < len(vs.Values) {
					v = x.exprTyped(f, st, vs.Values[i], obj.Type())
				} else {
					v = zeroValue(obj.Type())
				}
				x.declare(f, st, name, v)
			}
		}
		return st
	case *ast.ReturnStmt:
		x.doReturn(f, st, n)
		return nil
	case *ast.IfStmt:
		return x.ifStmt(f, st, n)
	case *ast.ForStmt:
		return x.forStmt(f, st, n, "")
	case *ast.RangeStmt:
		return x.rangeStmt(f, st, n, "")
	case *ast.SwitchStmt:
		return x.switchStmt(f, st, n, "")
	case *ast.TypeSwitchStmt:
		return x.typeSwitchStmt(f, st, n, "")
	case *ast.LabeledStmt:
		switch inner := n.Stmt.(type) {
		case *ast.ForStmt:
			return x.forStmt(f, st, inner, n.Label.Name)
		case *ast.RangeStmt:
			return x.rangeStmt(f, st, inner, n.Label.Name)
		case *ast.SwitchStmt:
			return x.switchStmt(f, st, inner, n.Label.Name)
		}
		return x.stmt(f, st, n.Stmt)
	case *ast.BranchStmt:
		return x.branch(f, st, n)
	case *ast.DeferStmt:
		f.defers = append(f.defers, n)
		return st
	case *ast.EmptyStmt:
		return st
	case *ast.GoStmt:
		if x.c.abstract {
			x.c.note("go statement ignored (abstract mode): " + nodeText(x.prog.fset, n))
			return st
		}
		fail("go statement unsupported at %s", x.pos(n.Pos()))
	}
	fail("unsupported statement %T at %s", s, x.pos(s.Pos()))
	return nil
}

func (x *X) declare(f *Frame, st *State, name *ast.Ident, v Value) {
	if name.Name == "_" {
		return
	}
	obj := f.info.Defs[name]
	if obj == nil {
		// redeclaration in := with existing var
		obj = f.info.Uses[name]
		if obj == nil {
			return
		}
		x.writeVar(st, obj, x.assignConv(st, x.typed(v, obj.Type()), obj.Type()))
		return
	}
	v = x.assignConv(st, x.typed(v, obj.Type()), obj.Type())
	if f.boxedVars[obj] {
		r := x.c.newRef(st, "box_"+name.Name)
		st.boxed[obj] = r
		x.c.storePtr(st, obj.Type(), r, Value{T: obj.Type(), C: v.C})
		return
	}
	st.vars[obj] = Value{T: obj.Type(), C: v.C}
}

// multi evaluates an expression that yields several values (call, v,ok forms).
func (x *X) multi(f *Frame, st *State, e ast.Expr) []Value {
	switch n := stripParens(e).(type) {
	case *ast.CallExpr:
		return x.call(f, st, n)
	case *ast.IndexExpr:
		base := x.expr(f, st, n.X)
		if mt, ok := base.T.Underlying().(*types.Map); ok {
			k := x.exprTyped(f, st, n.Index, mt.Key())
			has, val := x.mapLoad(st, base, x.mapKeyTerm(k))
			x.wfValue(st, val) // values stored in maps are Go values (see indexValue)
			iv := iteValue(has, val, zeroValue(mt.Elem()))
			for i, ct := range iv.C {
				if ct != nil && !ct.Bound && ct.Op == "ite" {
					iv.C[i] = x.c.abbreviate("mg", ct)
				}
			}
			return []Value{iv, boolVal(has)}
		}
	case *ast.TypeAssertExpr:
		v, ok := x.typeAssert(f, st, n)
		return []Value{v, boolVal(ok)}
	}
	fail("unsupported multi-value expression at %s", x.pos(e.Pos()))
	return nil
}

func (x *X) assignStmt(f *Frame, st *State, n *ast.AssignStmt) *State {
	if n.Tok != token.ASSIGN && n.Tok != token.DEFINE {
		// op=
		cur := x.expr(f, st, n.Lhs[0])
		rhs := x.expr(f, st, n.Rhs[0])
		var op token.Token
		switch n.Tok {
		case token.ADD_ASSIGN:
			op = token.ADD
		case token.SUB_ASSIGN:
			op = token.SUB
		case token.MUL_ASSIGN:
			op = token.MUL
		case token.QUO_ASSIGN:
			op = token.QUO
		case token.REM_ASSIGN:
			op = token.REM
		case token.AND_ASSIGN:
			op = token.AND
		case token.OR_ASSIGN:
			op = token.OR
		case token.XOR_ASSIGN:
			op = token.XOR
		case token.SHL_ASSIGN:
			op = token.SHL
		case token.SHR_ASSIGN:
			op = token.SHR
		case token.AND_NOT_ASSIGN:
			op = token.AND_NOT
		}
		if op != token.SHL && op != token.SHR {
			rhs = x.typed(rhs, cur.T)
		}
		r := binop(op, cur, rhs, func(c *Term) { x.panicCheck(st, "div", c, n.Pos(), "division by zero") })
		r.T = cur.T
		x.assign(f, st, n.Lhs[0], r)
		return st
	}
	var vals []Value
	if len(n.Rhs) == 1 && len(n.Lhs) > 1 {
		vals = x.multi(f, st, n.Rhs[0])
		if len(vals) != len(n.Lhs) {
			fail("assignment count mismatch at %s", x.pos(n.Pos()))
		}
	} else {
		for i, r := range n.Rhs {
			lt := f.info.TypeOf(n.Lhs[i])
			v := x.expr(f, st, r)
			if lt != nil {
				v = x.typed(v, lt)
			} else if v.C == nil && v.K != nil {
				v = x.typed(v, defaultConstType(v.K))
			}
			vals = append(vals, v)
		}
	}
	x.flushWriteback(f, st)
	for i, l := range n.Lhs {
		if id, ok := l.(*ast.Ident); ok {
			if id.Name == "_" {
				continue
			}
			if n.Tok == token.DEFINE {
				x.declare(f, st, id, vals[i])
				continue
			}
		}
		x.assign(f, st, l, vals[i])
	}
	return st
}

func (x *X) flushWriteback(f *Frame, st *State) {
	if len(f.writeback) == 0 {
		return
	}
	wb := f.writeback
	f.writeback = nil
	for _, w := range wb {
		w(st)
	}
	f.writeback = nil
}

// assign stores v into the lvalue l.
func (x *X) assign(f *Frame, st *State, l ast.Expr, v Value) {
	switch n := l.(type) {
	case *ast.ParenExpr:
		x.assign(f, st, n.X, v)
	case *ast.Ident:
		if n.Name == "_" {
			return
		}
		obj := f.info.Uses[n]
		if obj == nil {
			obj = f.info.Defs[n]
		}
		vo, ok := obj.(*types.Var)
		if !ok {
			fail("assignment to non-variable %s", n.Name)
		}
		v = x.assignConv(st, x.typed(v, vo.Type()), vo.Type())
		if vo.Pkg() != nil && vo.Parent() == vo.Pkg().Scope() {
			x.writeGlobal(st, vo, v)
			return
		}
		x.writeVar(st, vo, v)
	case *ast.SelectorExpr:
		sel, ok := f.info.Selections[n]
		if !ok {
			// qualified package variable
			if vo, ok := f.info.Uses[n.Sel].(*types.Var); ok {
				x.writeGlobal(st, vo, x.assignConv(st, x.typed(v, vo.Type()), vo.Type()))
				return
			}
			fail("unsupported assignment target at %s", x.pos(l.Pos()))
		}
		path := sel.Index()
		base := x.expr(f, st, n.X)
		if len(path) > 1 {
			// promoted field: rebuild the enclosing values (or store through the innermost pointer)
			if nv, changed := x.setPath(st, base, path, v, n.Pos()); changed {
				x.assign(f, st, n.X, nv)
			}
			return
		}
		last := path[len(path)-1]
		if pt, ok := base.T.Underlying().(*types.Pointer); ok {
			su := pt.Elem().Underlying().(*types.Struct)
			fld := su.Field(last)
			lo, _, ft, _ := fieldRange(pt.Elem(), fld.Name())
			v = x.assignConv(st, x.typed(v, ft), ft)
			x.panicCheck(st, "nil", Not(Eq(base.S(), BVInt(0, 64))), n.Pos(), "nil dereference (assign field "+fld.Name()+")")
			x.c.storePtrRange(st, pt.Elem(), base.S(), lo, v)
			return
		}
		if len(path) > 1 {
			fail("assignment through embedded value field unsupported at %s", x.pos(l.Pos()))
		}
		su := base.T.Underlying().(*types.Struct)
		fld := su.Field(last)
		_, _, ft, _ := fieldRange(base.T, fld.Name())
		v = x.assignConv(st, x.typed(v, ft), ft)
		x.assign(f, st, n.X, withField(base, fld.Name(), v))
	case *ast.IndexExpr:
		base := x.expr(f, st, n.X)
		switch u := base.T.Underlying().(type) {
		case *types.Slice:
			idx := x.expr(f, st, n.Index)
			ref, off, ln, _ := sliceParts(base)
			i := x.indexTerm(idx)
			x.panicCheck(st, "index", x.inBounds(idx, i, ln), n.Pos(), nodeText(x.prog.fset, n))
			v = x.assignConv(st, x.typed(v, u.Elem()), u.Elem())
			x.c.storeElem(st, u.Elem(), ref, bvbin("bvadd", off, i), v)
		case *types.Array:
			idx := x.expr(f, st, n.Index)
			i := x.indexTerm(idx)
			x.panicCheck(st, "index", x.inBounds(idx, i, BVInt(u.Len(), 64)), n.Pos(), nodeText(x.prog.fset, n))
			v = x.typed(v, u.Elem())
			x.assign(f, st, n.X, x.arraySet(base, i, v))
		case *types.Map:
			k := x.exprTyped(f, st, n.Index, u.Key())
			v = x.assignConv(st, x.typed(v, u.Elem()), u.Elem())
			x.panicCheck(st, "nilmap", Not(Eq(base.S(), BVInt(0, 64))), n.Pos(), "assignment to entry in nil map")
			x.mapStore(st, base, x.mapKeyTerm(k), v)
		case *types.Pointer:
			// (*arr)[i] = v
			at, ok := u.Elem().Underlying().(*types.Array)
			if !ok {
				fail("unsupported index assignment at %s", x.pos(l.Pos()))
			}
			arr := x.c.loadPtr(st, u.Elem(), base.S())
			idx := x.expr(f, st, n.Index)
			i := x.indexTerm(idx)
			x.panicCheck(st, "index", x.inBounds(idx, i, BVInt(at.Len(), 64)), n.Pos(), nodeText(x.prog.fset, n))
			v = x.typed(v, at.Elem())
			x.c.storePtr(st, u.Elem(), base.S(), x.arraySet(arr, i, v))
		default:
			fail("unsupported index assignment on %v at %s", base.T, x.pos(l.Pos()))
		}
	case *ast.StarExpr:
		p := x.expr(f, st, n.X)
		pt := p.T.Underlying().(*types.Pointer)
		x.panicCheck(st, "nil", Not(Eq(p.S(), BVInt(0, 64))), n.Pos(), "nil dereference")
		v = x.assignConv(st, x.typed(v, pt.Elem()), pt.Elem())
		x.c.storePtr(st, pt.Elem(), p.S(), v)
	default:
		fail("unsupported assignment target %T at %s", l, x.pos(l.Pos()))
	}
}

// setPath writes v into the field reached from cur by the field-index path. When cur is a
// pointer the write goes to the heap and cur is returned unchanged (changed == false); when cur
// is a struct value the updated value is returned (changed == true) for the caller to store.
func (x *X) setPath(st *State, cur Value, path []int, v Value, pos token.Pos) (Value, bool) {
	if pt, ok := cur.T.Underlying().(*types.Pointer); ok {
		su := pt.Elem().Underlying().(*types.Struct)
		fld := su.Field(path[0])
		lo, _, ft, _ := fieldRange(pt.Elem(), fld.Name())
		x.panicCheck(st, "nil", Not(Eq(cur.S(), BVInt(0, 64))), pos, "nil dereference (assign field "+fld.Name()+")")
		if len(path) == 1 {
			x.c.storePtrRange(st, pt.Elem(), cur.S(), lo, x.assignConv(st, x.typed(v, ft), ft))
			return cur, false
		}
		fv := x.walkFieldPath(st, cur, path[:1], pos)
		if nv, changed := x.setPath(st, fv, path[1:], v, pos); changed {
			x.c.storePtrRange(st, pt.Elem(), cur.S(), lo, nv)
		}
		return cur, false
	}
	su := cur.T.Underlying().(*types.Struct)
	fld := su.Field(path[0])
	_, _, ft, _ := fieldRange(cur.T, fld.Name())
	if len(path) == 1 {
		return withField(cur, fld.Name(), x.assignConv(st, x.typed(v, ft), ft)), true
	}
	fv := x.walkFieldPath(st, cur, path[:1], pos)
	if nv, changed := x.setPath(st, fv, path[1:], v, pos); changed {
		return withField(cur, fld.Name(), nv), true
	}
	return cur, false
}

func (x *X) cond(f *Frame, st *State, e ast.Expr) *Term {
	v := x.exprTyped(f, st, e, tBool)
	return v.S()
}

func (x *X) ifStmt(f *Frame, st *State, n *ast.IfStmt) *State {
	if n.Init != nil {
		st = x.stmt(f, st, n.Init)
		if st == nil {
			return nil
		}
	}
	c := x.cond(f, st, n.Cond)
	x.flushWriteback(f, st)
	var thenSt, elseSt *State
	if !c.isFalse() {
		thenSt = st.clone()
		thenSt.pc = x.c.define("pc", And(st.pc, c))
		thenSt = x.block(f, thenSt, n.Body.List)
	}
	if !c.isTrue() {
		elseSt = st.clone()
		elseSt.pc = x.c.define("pc", And(st.pc, Not(c)))
		if n.Else != nil {
			elseSt = x.stmt(f, elseSt, n.Else)
		}
	}
	return x.c.mergeStates(thenSt, elseSt)
}

func (x *X) pushTarget(f *Frame, label string, isLoop bool) *Target {
	t := &Target{label: label, isLoop: isLoop}
	f.targets = append(f.targets, t)
	return t
}

func (x *X) popTarget(f *Frame) { f.targets = f.targets[:len(f.targets)-1] }

func (x *X) branch(f *Frame, st *State, n *ast.BranchStmt) *State {
	label := ""
	if n.Label != nil {
		label = n.Label.Name
	}
	switch n.Tok {
	case token.BREAK:
		for i := len(f.targets) - 1; i >= 0; i-- {
			t := f.targets[i]
			if label == "" || t.label == label {
				t.breaks = append(t.breaks, st)
				return nil
			}
		}
	case token.CONTINUE:
		for i := len(f.targets) - 1; i >= 0; i-- {
			t := f.targets[i]
			if t.isLoop && (label == "" || t.label == label) {
				t.conts = append(t.conts, st)
				return nil
			}
		}
	}
	fail("unsupported branch statement %s at %s", n.Tok, x.pos(n.Pos()))
	return nil
}

func (x *X) switchStmt(f *Frame, st *State, n *ast.SwitchStmt, label string) *State {
	if n.Init != nil {
		st = x.stmt(f, st, n.Init)
		if st == nil {
			return nil
		}
	}
	var tag *Value
	if n.Tag != nil {
		v := x.expr(f, st, n.Tag)
		if v.C == nil && v.K != nil {
			v = x.typed(v, f.info.TypeOf(n.Tag))
		}
		tag = &v
	}
	tgt := x.pushTarget(f, label, false)
	var outs []*State
	rest := st // state in which no earlier case matched
	var defaultClause *ast.CaseClause
	for _, cs := range n.Body.List {
		cc := cs.(*ast.CaseClause)
		if cc.List == nil {
			defaultClause = cc
			continue
		}
		if rest == nil || rest.pc.isFalse() {
			break
		}
		var conds []*Term
		for _, e := range cc.List {
			if tag != nil {
				ev := x.expr(f, rest, e)
				ev = x.typed(ev, tag.T)
				conds = append(conds, eqValue(*tag, ev))
			} else {
				conds = append(conds, x.cond(f, rest, e))
			}
		}
		c := Or(conds...)
		if !c.isFalse() {
			body := rest.clone()
			body.pc = x.c.define("pc", And(rest.pc, c))
			for _, s := range cc.Body {
				if br, ok := s.(*ast.BranchStmt); ok && br.Tok == token.FALLTHROUGH {
					fail("fallthrough unsupported at %s", x.pos(br.Pos()))
				}
			}
			out := x.block(f, body, cc.Body)
			if out != nil {
				outs = append(outs, out)
			}
		}
		nr := rest.clone()
		nr.pc = x.c.define("pc", And(rest.pc, Not(c)))
		rest = nr
	}
	if rest != nil && !rest.pc.isFalse() {
		if defaultClause != nil {
			out := x.block(f, rest, defaultClause.Body)
			if out != nil {
				outs = append(outs, out)
			}
		} else {
			outs = append(outs, rest)
		}
	}
	x.popTarget(f)
	outs = append(outs, tgt.breaks...)
	return x.c.mergeAll(outs)
}

func (x *X) typeSwitchStmt(f *Frame, st *State, n *ast.TypeSwitchStmt, label string) *State {
	if n.Init != nil {
		st = x.stmt(f, st, n.Init)
		if st == nil {
			return nil
		}
	}
	var subject ast.Expr
	var bind *ast.Ident
	switch a := n.Assign.(type) {
	case *ast.ExprStmt:
		subject = a.X.(*ast.TypeAssertExpr).X
	case *ast.AssignStmt:
		subject = a.Rhs[0].(*ast.TypeAssertExpr).X
		bind = a.Lhs[0].(*ast.Ident)
	}
	v := x.expr(f, st, subject)
	r := v.S()
	tgt := x.pushTarget(f, label, false)
	var outs []*State
	rest := st
	var defaultClause *ast.CaseClause
	for _, cs := range n.Body.List {
		cc := cs.(*ast.CaseClause)
		if cc.List == nil {
			defaultClause = cc
			continue
		}
		var conds []*Term
		var single types.Type
		for _, e := range cc.List {
			if tv, ok := f.info.Types[e]; ok && tv.IsNil() {
				conds = append(conds, Eq(r, BVInt(0, 64)))
				continue
			}
			t := f.info.TypeOf(e)
			single = t
			if _, isIface := t.Underlying().(*types.Interface); isIface {
				conds = append(conds, Not(Eq(r, BVInt(0, 64))))
				continue
			}
			conds = append(conds, And(Not(Eq(r, BVInt(0, 64))), Eq(App("dyntype", SInt, r), Lit(fmt.Sprint(x.prog.typeID(t)), SInt))))
		}
		c := Or(conds...)
		body := rest.clone()
		body.pc = x.c.define("pc", And(rest.pc, c))
		if bind != nil {
			if obj := f.info.Implicits[cc]; obj != nil {
				if len(cc.List) == 1 && single != nil {
					if _, isPtr := single.Underlying().(*types.Pointer); isPtr {
						body.vars[obj] = Value{T: single, C: []*Term{r}}
					} else if _, isIface := single.Underlying().(*types.Interface); isIface {
						body.vars[obj] = Value{T: single, C: []*Term{r}}
					} else {
						body.vars[obj] = x.c.loadPtr(body, single, r)
					}
				} else {
					body.vars[obj] = Value{T: obj.Type(), C: v.C}
				}
			}
		}
		out := x.block(f, body, cc.Body)
		if out != nil {
			outs = append(outs, out)
		}
		nr := rest.clone()
		nr.pc = x.c.define("pc", And(rest.pc, Not(c)))
		rest = nr
	}
	if defaultClause != nil {
		if bind != nil {
			if obj := f.info.Implicits[defaultClause]; obj != nil {
				rest.vars[obj] = Value{T: obj.Type(), C: v.C}
			}
		}
		out := x.block(f, rest, defaultClause.Body)
		if out != nil {
			outs = append(outs, out)
		}
	} else {
		outs = append(outs, rest)
	}
	x.popTarget(f)
	outs = append(outs, tgt.breaks...)
	return x.c.mergeAll(outs)
}

func (x *X) doReturn(f *Frame, st *State, n *ast.ReturnStmt) {
	sig := f.fi.Obj.Type().(*types.Signature)
	var vals []Value
	if len(n.Results) == 0 {
		for _, r := range f.results {
			v, _ := x.readVar(st, r)
			vals = append(vals, v)
		}
	} else if len(n.Results) == 1 && sig.Results().Len() > 1 {
		vals = x.multi(f, st, n.Results[0])
		for i := range vals {
			vals[i] = x.assignConv(st, x.typed(vals[i], sig.Results().At(i).Type()), sig.Results().At(i).Type())
		}
	} else {
		for i, r := range n.Results {
			vals = append(vals, x.exprTyped(f, st, r, sig.Results().At(i).Type()))
		}
	}
	x.flushWriteback(f, st)
	if st.pc.isFalse() {
		return
	}
	x.finishReturn(f, st, vals)
}

func (x *X) finishReturn(f *Frame, st *State, vals []Value) {
	// named results are assigned (visible to deferred functions)
	if len(f.results) == len(vals) {
		for i, r := range f.results {
			if r.Name() != "" && r.Name() != "_" {
				x.writeVar(st, r, vals[i])
			}
		}
	}
	for i := len(f.defers) - 1; i >= 0; i-- {
		d := f.defers[i]
		x.call(f, st, d.Call)
	}
	f.rets = append(f.rets, st)
	f.retVals = append(f.retVals, vals)
}
