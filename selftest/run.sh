#!/bin/bash
# Must-fail / must-pass corpus for the engine. Each line of mutants.tsv:
#   <property> <TAB> <file under /repo> <TAB> <perl substitution> <TAB> fail|pass <TAB> note
# The substitution is applied to the working tree of /repo, the property's quick check is run,
# and the file is restored with git checkout. "fail" mutants must produce a VIOLATION line,
# "pass" mutants (harmless refactors) must not.
cd "$(dirname "$0")/.."
if [ -n "$(git -C /repo status --porcelain --untracked-files=no)" ]; then
  echo "refusing to run: /repo has uncommitted changes to tracked files (they would be lost by git checkout)"; exit 2
fi
FILTER="${1:-.}"
ok=0; bad=0
while IFS=$'\t' read -r prop file subst expect note; do
  [ -z "$prop" ] && continue
  case "$prop" in \#*) continue;; esac
  echo "$prop $file $note" | grep -qE "$FILTER" || continue
  before=$(md5sum "/repo/$file" | cut -d' ' -f1)
  # packages that depend on the harmony bls cgo library do not build even unmodified in this sandbox;
  # for those the compile check is left to gocv's own type check of the package
  basebuild=0; (cd /repo && go build ./$(dirname "$file")/ 2>/dev/null) || basebuild=1
  perl -0pi -e "$subst" "/repo/$file"
  after=$(md5sum "/repo/$file" | cut -d' ' -f1)
  if [ "$before" = "$after" ]; then
    echo "SELFTEST-BROKEN (substitution did not apply): $prop $file $note"; bad=$((bad+1)); continue
  fi
  if [ $basebuild = 0 ] && ! (cd /repo && go build ./$(dirname "$file")/ 2>/dev/null); then
    echo "SELFTEST-BROKEN (mutant does not compile): $prop $file $note"; bad=$((bad+1))
    git -C /repo checkout -- "$file"; continue
  fi
  out=$(VERIF_EVIDENCE_DIR=/tmp/selftest-evidence ./check "$prop" --tier quick 2>&1)
  git -C /repo checkout -- "$file"
  if echo "$out" | grep -q '^VIOLATION'; then got=fail; else got=pass; fi
  if [ "$got" = "$expect" ]; then
    ok=$((ok+1)); echo "ok   [$expect] $prop $note :: $(echo "$out" | grep -m1 '^VIOLATION' | sed 's/.*replays\///')"
  else
    bad=$((bad+1)); echo "MISS [$expect, got $got] $prop $file $note"
  fi
done < selftest/mutants.tsv
echo "selftest: $ok as expected, $bad not"
[ "$bad" = 0 ]
