#!/bin/bash
# Must-fail / must-pass corpus for the engine. Each line of mutants.tsv:
#   <property> <TAB> <file under the repository> <TAB> <perl substitution> <TAB> fail|pass <TAB> note
# The corpus runs on a scratch worktree of /repo's HEAD (never on /repo itself): the substitution is
# applied there, the property's quick check is run with VERIF_REPO pointing at the worktree, and the
# file is restored. "fail" mutants must produce a VIOLATION line, "pass" mutants (harmless
# refactors) must not. Evidence and replays of mutated runs go to scratch directories.
#   selftest/run.sh [<egrep filter on "property file note">]
# SELFTEST_PART=k/n runs only every n-th mutant starting with the k-th (1-based): several parts may run side by side,
# each on its own worktree and scratch directories.
cd "$(dirname "$0")/.."
export GOFLAGS=-mod=mod GOPROXY=off GOSUMDB=off GOTOOLCHAIN=local
FILTER="${1:-.}"
PART_K=1; PART_N=1
if [ -n "${SELFTEST_PART:-}" ]; then PART_K="${SELFTEST_PART%/*}"; PART_N="${SELFTEST_PART#*/}"; fi
WT=$(mktemp -d /tmp/selftestwt.XXXXXX); rmdir "$WT"
EV=/tmp/selftest-evidence.$$; RP=/tmp/selftest-replays.$$
git -C /repo worktree add --detach "$WT" HEAD >/dev/null 2>&1 || { echo "cannot create worktree"; exit 2; }
trap 'git -C /repo worktree remove --force "$WT" >/dev/null 2>&1; rm -rf "$EV" "$RP"' EXIT
ok=0; bad=0; idx=0
while IFS=$'\t' read -r prop file subst expect note; do
  [ -z "$prop" ] && continue
  case "$prop" in \#*) continue;; esac
  echo "$prop $file $note" | grep -qE "$FILTER" || continue
  idx=$((idx+1))
  [ $(( (idx - PART_K) % PART_N )) -eq 0 ] || continue
  before=$(md5sum "$WT/$file" | cut -d' ' -f1)
  # packages that depend on the harmony bls cgo library do not build even unmodified in this sandbox;
  # for those the compile check is left to gocv's own type check of the package
  basebuild=0; (cd "$WT" && go build ./$(dirname "$file")/ 2>/dev/null) || basebuild=1
  perl -0pi -e "$subst" "$WT/$file"
  after=$(md5sum "$WT/$file" | cut -d' ' -f1)
  if [ "$before" = "$after" ]; then
    echo "SELFTEST-BROKEN (substitution did not apply): $prop $file $note"; bad=$((bad+1)); continue
  fi
  if [ $basebuild = 0 ] && ! (cd "$WT" && go build ./$(dirname "$file")/ 2>/dev/null); then
    echo "SELFTEST-BROKEN (mutant does not compile): $prop $file $note"; bad=$((bad+1))
    git -C "$WT" checkout -- "$file"; continue
  fi
  out=$(VERIF_REPO="$WT" VERIF_EVIDENCE_DIR="$EV" VERIF_REPLAY_DIR="$RP" VERIF_NO_REPLAY=1 ./check "$prop" --tier quick 2>&1)
  git -C "$WT" checkout -- "$file"
  if echo "$out" | grep -q '^VIOLATION'; then got=fail; else got=pass; fi
  if [ "$got" = "$expect" ]; then
    ok=$((ok+1)); echo "ok   [$expect] $prop $note :: $(echo "$out" | grep -m1 '^VIOLATION' | sed 's/.*replays[^/]*\///')"
  else
    bad=$((bad+1)); echo "MISS [$expect, got $got] $prop $file $note"
  fi
done < selftest/mutants.tsv
echo "selftest: $ok as expected, $bad not"
[ "$bad" = 0 ]
