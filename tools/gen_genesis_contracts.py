#!/usr/bin/env python3
"""One-off generator for the SyncGenesisHeader contracts (C18 operator witness, C19 install-once).
Reads each router's source to find the exact anchor statements; writes/extends contracts_verif.go."""
import re,glob,os
FAMILY_A = {'eth','starcoin','btc','bsc','bytom','heco','hsc','msc','pixiechain','polygon','zilliqa','zilliqalegacy','harmony'}
base='/repo/native/service/header_sync'
cf_common=os.path.join(base,'common','contracts_verif.go')
if not os.path.exists(cf_common):
    open(cf_common,'w').write('//go:build verif\n\n// Contracts shared by the header-sync routers, read by /verif/gocv.\npackage common\n\n// trust-root marker of a side chain: GENESIS_HEADER ++ 8-byte chain id\n//@ spec genKey(id uint64) KeyT = K2(utils.HeaderSyncContractAddress, "genesisHeader", u64le(id))\n')
for d in sorted(os.listdir(base)):
    if d in ('common',) or not os.path.isdir(os.path.join(base,d)): continue
    for f in sorted(glob.glob(os.path.join(base,d,'*header_sync.go'))):
        src=open(f).read()
        for m in re.finditer(r'func \((\w+) \*(\w+)\) SyncGenesisHeader\((\w+) \*native\.NativeService\)[^\n]*\{\n(.*?)\n\}\n', src, re.S):
            recvT, nv, body = m.group(2), m.group(3), m.group(4)
            pkgname=re.search(r'^package (\w+)',src,re.M).group(1)
            opm=re.search(r'^\s*((\w+), err := node_manager\.GetCurConOperator\(%s\))$'%nv, body, re.M)
            vm=re.search(r'^\s*(err = utils\.ValidateOwner\(%s, (\w+)\))$'%nv, body, re.M)
            pm=re.search(r'^\s*(if err := (\w+)\.Deserialization\(\w+\.NewZeroCopySource\(%s\.GetInput\(\)\)\); err != nil) \{'%nv, body, re.M)
            pm2=re.search(r'^\s*(err = (\w+)\.Deserialization\(\w+\.NewZeroCopySource\(%s\.GetInput\(\)\)\))$'%nv, body, re.M)
            lines=[f'//@ func (*{recvT}).SyncGenesisHeader',
                   '//@   property C18, C19' if (d in FAMILY_A and recvT != 'HeimdallHandler') else '//@   property C18',
                   '//@   mode abstract','//@   modifies Store',
                   f'//@   requires {nv} != nil && {nv}.tx != nil',
                   '//@   ghost var wit bool = false','//@   ghost var gop [20]byte']
            if opm and vm:
                lines+= [f'//@   set after "{opm.group(1)}" : gop := {opm.group(2)}',
                         f'//@   set after "{vm.group(1)}" : wit := err == nil',
                         '//@   -- the address that must witness is the consensus operator just derived from the current validators',
                         '//@   callsite[c18-operator] ValidateOwner#1 requires arg1 == gop']
            lines.append('//@   -- installing a trust root changes storage only with the operator\'s witness')
            lines.append('//@   ensures[c18-witness] Store != old(Store) ==> wit')
            if d in FAMILY_A and recvT != 'HeimdallHandler':
                pv = pm.group(2) if pm else (pm2.group(2) if pm2 else None)
                anchor = pm.group(1) if pm else (pm2.group(1) if pm2 else None)
                if pv:
                    lines.insert(7,'//@   ghost var cid uint64 = 0')
                    lines.append(f'//@   set after "{anchor}" : cid := {pv}.ChainID')
                    lines.append('//@   -- C19: the trust root is installed only if none was installed, and a later attempt fails without touching state')
                    lines.append('//@   ensures[c19-once] err == nil ==> old(Store)[genKey(cid)] == None')
                    lines.append('//@   ensures[c19-rejected] old(Store)[genKey(cid)] != None ==> err != nil && Store == old(Store)')
            text='\n'.join(lines)+'\n'
            cf=os.path.join(base,d,'contracts_verif.go')
            if os.path.exists(cf):
                cur=open(cf).read()
                if f'(*{recvT}).SyncGenesisHeader' in cur:
                    i=cur.index(f'//@ func (*{recvT}).SyncGenesisHeader'); j=cur.find('\n//@ func ', i+10)
                    cur=cur[:i].rstrip('\n')+'\n\n'+text+(cur[j:] if j>=0 else '')
                else:
                    cur=cur.rstrip('\n')+'\n\n'+text
                open(cf,'w').write(cur)
            else:
                open(cf,'w').write(f'//go:build verif\n\n// Contracts for this header-sync router, read by /verif/gocv.\npackage {pkgname}\n\n'+text)
            print(d, recvT, 'op' if opm else 'NO-OPERATOR', 'C19' if d in FAMILY_A else '')
