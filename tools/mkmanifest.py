#!/usr/bin/env python3
"""Regenerates /verif/MANIFEST.json from /verif/claims.json (what is claimed, with notes) and
properties.jsonl. Every property not claimed is listed under not_applicable with its reason."""
import json, os, subprocess, sys

V = os.path.dirname(os.path.dirname(os.path.abspath(__file__)))
claims = json.load(open(os.path.join(V, "claims.json")))
props = [json.loads(l) for l in open(os.path.join(V, "properties.jsonl"))]

hooks_commits = []
try:
    out = subprocess.run(["git", "-C", "/repo", "log", "--format=%H %s"], capture_output=True, text=True).stdout
    for line in out.splitlines():
        h, s = line.split(" ", 1)
        if s.startswith("verif:"):
            hooks_commits.append(h)
except Exception:
    pass

checks = []
na = []
for p in props:
    pid = p["id"]
    c = claims["claimed"].get(pid)
    if c is None:
        na.append({"property_id": pid, "reason": claims["not_applicable"].get(pid, "contracts drafted in DESIGN.md section 4 but the generator support / contracts are not built yet; not switched to another technique")})
        continue
    checks.append({
        "property_id": pid,
        "quick_cmd": "./check %s --tier quick" % pid,
        "thorough_cmd": "./check %s --tier thorough" % pid,
        "evidence_file": "/verif/evidence/%s.json" % pid,
        "replay_cmd_template": "./check %s --replay {path}" % pid,
        "engine": "gocv",
        "level_claimed": {
            "category": "proof",
            "text": c["text"],
            "design_ref": "DESIGN.md section 4, " + pid,
        },
        "level_note": c["note"],
        "technique": c.get("technique", "contract-based deductive verification: weakest-precondition style VCs generated from the Go AST of /repo (gocv), contracts in contracts_verif.go, discharged by z3/cvc5"),
    })

manifest = {
    "version": 1,
    "setup_cmd": "cd /verif && ./setup.sh",
    "hooks": {
        "guard": "verif",
        "enable": "-tags verif (contracts_verif.go files are comment-only and compiled only under this tag)",
        "baseline_off_cmd": json.load(open("/root/.vp/BASELINE.json"))["cmd"] if os.path.exists("/root/.vp/BASELINE.json") else "go test ./...",
        "source_commits": hooks_commits,
        "add_only": True,
    },
    "engines": [{
        "name": "gocv",
        "path": "/verif/gocv",
        "serves_properties": [c["property_id"] for c in checks],
        "kind_free_text": "verification-condition generator for Go written for this task: forward symbolic execution of the typed AST with state merging, loops cut by invariants, calls replaced by callee contracts, bit-vector machine arithmetic, Boogie-style heaps; obligations discharged by z3 5.1.0 / cvc5 1.0 / z3 4.8.12 raced",
    }],
    "checks": checks,
    "not_applicable": na,
    "notes": claims.get("notes", ""),
}
json.dump(manifest, open(os.path.join(V, "MANIFEST.json"), "w"), indent=1)
print("claimed:", len(checks), "not_applicable:", len(na))
