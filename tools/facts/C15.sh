#!/bin/bash
# Syntactic facts the C15 contracts lean on (assumed frame of NativeService.Invoke), re-checked on every run:
#  1. CacheDB.Commit is called only from HandleInvokeTransaction (core/store/ledgerstore/tx_handler.go);
#  2. CacheDB.Reset is called only from executeBlock / pre-execution code in core/store/ledgerstore;
#  3. the cacheDB field of NativeService is assigned only in NewNativeService (composite literal).
# Prints the offending lines and exits 1 if one of them no longer holds.
REPO="${1:-/repo}"; cd "$REPO" || exit 2
bad=0
c=$(grep -rn --include=*.go -E '\.Commit\(\)' native core/store/ledgerstore http txnpool validator consensus 2>/dev/null | grep -v _test.go | grep -v contracts_verif.go | grep -E 'CacheDB\(\)\.Commit|cache\.Commit|cacheDB\.Commit|cachedb\.Commit' | grep -v 'core/store/ledgerstore/tx_handler.go')
[ -n "$c" ] && { echo "CacheDB.Commit called outside HandleInvokeTransaction:"; echo "$c"; bad=1; }
r=$(grep -rn --include=*.go -E '(CacheDB\(\)|cache|cacheDB|cachedb)\.Reset\(\)' native 2>/dev/null | grep -v _test.go | grep -v contracts_verif.go)
[ -n "$r" ] && { echo "CacheDB.Reset called from native contract code:"; echo "$r"; bad=1; }
a=$(grep -rn --include=*.go -E '\.cacheDB *=[^=]' native 2>/dev/null | grep -v _test.go | grep -v contracts_verif.go)
[ -n "$a" ] && { echo "NativeService.cacheDB reassigned:"; echo "$a"; bad=1; }
exit $bad
