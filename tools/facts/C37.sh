#!/bin/bash
# Syntactic facts the C37 contracts lean on. The contracts are proved per method, sequentially; "including under
# concurrent use" then rests on the lock discipline below (every method is one critical section of the pool's
# RWMutex, so any interleaving of calls is equivalent to some sequence of whole calls). Re-checked on every run:
#  1. every method of *TXPool that mentions tp.txList takes tp.Lock() or tp.RLock() before its first mention and
#     releases it with a defer placed directly after the acquisition (the lock is held until return);
#  2. a method that writes the table (assignment to an element, delete, or assignment of the field) takes the
#     write lock;
#  3. the only method without a lock (compareTxHeight) does not mention the table;
#  4. the field is not mentioned in any other non-test file of the package and no goroutine is started or lock
#     released early inside the file.
REPO="${1:-/repo}"
python3 - "$REPO" <<'PY'
import re, sys, os, glob
repo = sys.argv[1]
d = os.path.join(repo, 'txnpool/common')
src = open(os.path.join(d, 'transaction_pool.go')).read()
bad = []
def strip_comments(s):
    s = re.sub(r'/\*.*?\*/', '', s, flags=re.S)
    return re.sub(r'//[^\n]*', '', s)
code = strip_comments(src)
funcs = []
for m in re.finditer(r'^func \((\w+) \*TXPool\) (\w+)\(', code, re.M):
    i = code.index('{', code.index(')', m.end()))
    # find the body's opening brace: first '{' at depth 0 after the signature's parameter lists
    depth = 0; j = m.end() - 1; k = None; par = 0
    while j < len(code):
        ch = code[j]
        if ch == '(': par += 1
        elif ch == ')': par -= 1
        elif ch == '{' and par == 0:
            k = j; break
        j += 1
    depth = 0
    for e in range(k, len(code)):
        if code[e] == '{': depth += 1
        elif code[e] == '}':
            depth -= 1
            if depth == 0: break
    funcs.append((m.group(1), m.group(2), code[k+1:e]))
if len(funcs) < 8:
    bad.append('expected at least 8 methods of *TXPool, found %d' % len(funcs))
for recv, name, body in funcs:
    mention = re.search(r'\b%s\.txList\b' % recv, body)
    lock = re.search(r'\b%s\.(R?Lock)\(\)\s*\n\s*defer %s\.(R?Unlock)\(\)' % (recv, recv), body)
    if not mention:
        continue
    if not lock:
        bad.append('%s mentions the table without taking the lock (Lock/RLock directly followed by the deferred release)' % name); continue
    if (lock.group(1) == 'Lock') != (lock.group(2) == 'Unlock'):
        bad.append('%s: acquisition %s does not match the deferred %s' % (name, lock.group(1), lock.group(2)))
    if mention.start() < lock.start():
        bad.append('%s mentions the table before taking the lock' % name)
    writes = re.search(r'\bdelete\(%s\.txList\b|\b%s\.txList(\[[^\]]*\])?\s*=[^=]' % (recv, recv), body)
    if writes and lock.group(1) != 'Lock':
        bad.append('%s writes the table under the read lock' % name)
    # no early release
    if len(re.findall(r'\b%s\.R?Unlock\(\)' % recv, body)) != 1:
        bad.append('%s releases the lock more than once / early' % name)
if re.search(r'\bgo\s+(func\b|\w)', code):
    bad.append('a goroutine is started inside transaction_pool.go')
for f in glob.glob(os.path.join(d, '*.go')):
    b = os.path.basename(f)
    if b in ('transaction_pool.go', 'contracts_verif.go') or b.endswith('_test.go'): continue
    if re.search(r'\.txList\b', strip_comments(open(f).read())):
        bad.append('%s mentions the pool table outside transaction_pool.go' % b)
for x in bad: print(x)
sys.exit(1 if bad else 0)
PY
