#!/bin/bash
# Syntactic facts the C17 namespace argument leans on (CacheDB.Put/Get/Delete are trusted contracts, so their
# one-line bodies are checked here): every call of the internal accessors put/get/delete in
# native/storage/cachedb.go passes common.ST_STORAGE, and the iterator prefixes its range with it.
REPO="${1:-/repo}"; f="$REPO/native/storage/cachedb.go"; bad=0
calls=$(grep -nE 'self\.(put|get|delete)\(' "$f")
other=$(echo "$calls" | grep -v 'self\.\(put\|get\|delete\)(common\.ST_STORAGE, ')
[ -n "$other" ] && { echo "internal accessor called with a namespace other than ST_STORAGE:"; echo "$other"; bad=1; }
n=$(echo "$calls" | grep -c 'common\.ST_STORAGE')
[ "$n" -lt 3 ] && { echo "expected Put, Get and Delete to call put/get/delete with common.ST_STORAGE; found $n such calls"; bad=1; }
grep -q 'pkey\[0\] = byte(common.ST_STORAGE)' "$f" || { echo "NewIterator no longer prefixes its range with ST_STORAGE"; bad=1; }
exit $bad
