#!/bin/bash
# baseline.sh: runs the pinned test suite's stable tests (the 179 of /root/.vp/BASELINE.json) on a scratch
# worktree of /repo's HEAD with the verif build tag OFF and reports any that no longer pass.
# Used after every "fix:" commit and after hook commits.
set -u
export GOFLAGS=-mod=mod GOPROXY=off GOSUMDB=off GOTOOLCHAIN=local
WT=$(mktemp -d /tmp/basewt.XXXXXX); rmdir "$WT"
git -C /repo worktree add --detach "$WT" HEAD >/dev/null 2>&1 || { echo "cannot create worktree"; exit 2; }
trap 'git -C /repo worktree remove --force "$WT" >/dev/null 2>&1; rm -f /tmp/baseline.json' EXIT
PKGS=$(python3 -c "
import json
b=json.load(open('/root/.vp/BASELINE.json'))
print(' '.join(sorted(set(x.split('::')[0].replace('github.com/polynetwork/poly','.') for x in b['stable_pass']))))")
(cd "$WT" && go test -mod=mod -json -vet=off -count=1 -timeout 25m $PKGS > /tmp/baseline.json 2>/dev/null)
python3 - <<'EOF'
import json
b=json.load(open('/root/.vp/BASELINE.json'))
want=set(b['stable_pass'])
got={}
for l in open('/tmp/baseline.json'):
    try: e=json.loads(l)
    except Exception: continue
    if e.get('Test') and e.get('Action') in ('pass','fail','skip'):
        got[e['Package']+'::'+e['Test']]=e['Action']
bad=[t for t in sorted(want) if got.get(t)!='pass']
print("baseline: %d of %d stable tests pass" % (len(want)-len(bad), len(want)))
for t in bad: print("  NOT PASSING:", t, got.get(t))
raise SystemExit(1 if bad else 0)
EOF
