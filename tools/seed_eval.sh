#!/bin/bash
# seed_eval.sh <property> <patch.diff> [<demo_test.go> <package dir> <go test -run pattern>]
# Works on a scratch worktree of /repo's HEAD (never on /repo itself):
# 1. (optional) confirms the demonstration: passes without the patch, fails with it;
# 2. applies the patch there and runs the property's quick check with VERIF_REPO pointing at the worktree.
# Evidence and replays of the mutated run go to scratch directories, not to /verif/evidence or /verif/replays.
# Packages whose own _test.go files do not build (consensus/vbft, txnpool/common): set SEED_MASK_TESTS=1 to run the
# demonstration with a build overlay that masks the package's existing test files.
set -u
PROP="$1"; PATCH="$(readlink -f "$2")"; DEMO="${3:-}"; PKG="${4:-}"; RUN="${5:-.}"
[ -n "$DEMO" ] && DEMO="$(readlink -f "$DEMO")"
export GOFLAGS=-mod=mod GOPROXY=off GOSUMDB=off GOTOOLCHAIN=local
cd "$(dirname "$0")/.."
WT=$(mktemp -d /tmp/seedwt.XXXXXX); rmdir "$WT"
git -C /repo worktree add --detach "$WT" HEAD >/dev/null 2>&1 || { echo "cannot create worktree"; exit 2; }
trap 'git -C /repo worktree remove --force "$WT" >/dev/null 2>&1; rm -f /tmp/seed_eval_ov.$$.json' EXIT
OVERLAY=""
if [ -n "$DEMO" ]; then
  mkdir -p "$WT/$PKG"
  if [ -n "${SEED_MASK_TESTS:-}" ]; then
    python3 - "$WT/$PKG" "$DEMO" /tmp/seed_eval_ov.$$.json <<'PY'
import json, glob, os, sys
d, demo, out = sys.argv[1:4]
rep = {f: "" for f in glob.glob(os.path.join(d, "*_test.go"))}
rep[os.path.join(d, "zz_seed_demo_test.go")] = demo
json.dump({"Replace": rep}, open(out, "w"))
PY
    OVERLAY="-overlay /tmp/seed_eval_ov.$$.json"
  else
    cp "$DEMO" "$WT/$PKG/zz_seed_demo_test.go"
  fi
  (cd "$WT" && go test $OVERLAY -vet=off -count=1 -timeout 300s -run "$RUN" "./$PKG/" >/tmp/seed_eval_clean.log 2>&1); CLEAN=$?
fi
(cd "$WT" && git apply "$PATCH") || { echo "patch does not apply"; exit 2; }
if [ -n "$DEMO" ]; then
  (cd "$WT" && go test $OVERLAY -vet=off -count=1 -timeout 300s -run "$RUN" "./$PKG/" >/tmp/seed_eval_patched.log 2>&1); PATCHED=$?
  rm -f "$WT/$PKG/zz_seed_demo_test.go"
  (cd "$WT" && git checkout -- go.mod go.sum 2>/dev/null)
  echo "demo: clean_exit=$CLEAN patched_exit=$PATCHED (want 0 / non-zero)"
  if [ $CLEAN -ne 0 ] || [ $PATCHED -eq 0 ]; then echo "DEMO-NOT-CONFIRMED"; tail -5 /tmp/seed_eval_clean.log /tmp/seed_eval_patched.log; fi
fi
OUT=$(VERIF_REPO="$WT" VERIF_EVIDENCE_DIR=/tmp/seed-evidence VERIF_REPLAY_DIR=/tmp/seed-replays ./check "$PROP" --tier quick 2>&1)
echo "$OUT" | grep -E '^(VIOLATION|OK|KNOWN)' | head -8
if echo "$OUT" | grep -q '^VIOLATION'; then echo "SEED-DETECTED $PROP"; else echo "SEED-MISSED $PROP"; echo "$OUT" | tail -3; fi
rm -rf /tmp/seed-evidence /tmp/seed-replays
