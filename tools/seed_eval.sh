#!/bin/bash
# seed_eval.sh <property> <patch.diff> [<demo_test.go> <package dir> <go test -run pattern>]
# 1. (optional) confirms the demonstration in a scratch worktree: passes without the patch, fails with it;
# 2. applies the patch to /repo, runs the property's quick check, and undoes the patch.
# Evidence and replays of the mutated run go to scratch directories, not to /verif/evidence.
set -u
PROP="$1"; PATCH="$(readlink -f "$2")"; DEMO="${3:-}"; PKG="${4:-}"; RUN="${5:-.}"
export GOFLAGS=-mod=mod GOPROXY=off GOSUMDB=off GOTOOLCHAIN=local
cd "$(dirname "$0")/.."
if [ -n "$(git -C /repo status --porcelain --untracked-files=no)" ]; then
  echo "refusing to run: /repo has uncommitted changes to tracked files (they would be lost by git checkout)"; exit 2
fi
if [ -n "$DEMO" ]; then
  WT=$(mktemp -d /tmp/seedwt.XXXXXX); rmdir "$WT"
  git -C /repo worktree add --detach "$WT" HEAD >/dev/null 2>&1 || { echo "cannot create worktree"; exit 2; }
  cp "$DEMO" "$WT/$PKG/zz_seed_demo_test.go"
  (cd "$WT" && go test -count=1 -run "$RUN" "./$PKG/" >/tmp/seed_eval_clean.log 2>&1); CLEAN=$?
  (cd "$WT" && git apply "$PATCH") || { echo "patch does not apply"; git -C /repo worktree remove --force "$WT"; exit 2; }
  (cd "$WT" && go build ./... >/tmp/seed_eval_build.log 2>&1); BUILD=$?
  (cd "$WT" && go test -count=1 -run "$RUN" "./$PKG/" >/tmp/seed_eval_patched.log 2>&1); PATCHED=$?
  git -C /repo worktree remove --force "$WT"
  echo "demo: clean_exit=$CLEAN patched_exit=$PATCHED (want 0 / non-zero)"
  if [ $CLEAN -ne 0 ] || [ $PATCHED -eq 0 ]; then echo "DEMO-NOT-CONFIRMED"; tail -5 /tmp/seed_eval_clean.log /tmp/seed_eval_patched.log; fi
fi
git -C /repo apply "$PATCH" || { echo "patch does not apply to /repo"; exit 2; }
OUT=$(VERIF_EVIDENCE_DIR=/tmp/seed-evidence ./check "$PROP" --tier quick 2>&1)
git -C /repo checkout -- .
echo "$OUT" | grep -E '^(VIOLATION|OK|KNOWN)' | head -8
if echo "$OUT" | grep -q '^VIOLATION'; then echo "SEED-DETECTED $PROP"; else echo "SEED-MISSED $PROP"; fi
