#!/usr/bin/env python3
"""audit_prompt.py <tag> <Cxx> [<Cyy> ...]  -> prompt text for an independent audit sub-agent.

The agent gets only the property texts and a scratch worktree /tmp/wt-<tag> of the repository (without the
contract files) and is asked for genuine violations of the properties by the UNMODIFIED code, each with a
demonstration test. What it reports is a lead, not a finding: a lead becomes a finding only after a contract clause
taken from the property fails on the unchanged tree and the demonstration is confirmed against the real code."""
import json, sys
tag, ids = sys.argv[1], sys.argv[2:]
props = []
for l in open('/verif/properties.jsonl'):
    p = json.loads(l)
    if p['id'] in ids:
        props.append(p)
blocks = "\n\n".join(
    f"  id: {p['id']}\n  title: {p['title']}\n  statement: {p['statement']}\n  quantifier: {json.dumps(p['quantifier'])}\n  anchors: {json.dumps(p['anchors'])}"
    for p in props)
print(f"""You are auditing the Go repository polynetwork/poly (Poly Network relay chain node) for GENUINE violations of stated semantic properties by the code AS IT IS (no modification). You work ONLY in the scratch git worktree /tmp/wt-{tag} (a checkout of the repository) and write deliverables ONLY under /tmp/audit-{tag}/ (create it). Do not read or write anything under /verif or /repo. Do NOT use `git stash`. Sandbox has no network: before every go command run
  export GOFLAGS=-mod=mod GOPROXY=off GOSUMDB=off GOTOOLCHAIN=local
(if go rewrites go.mod/go.sum, `git checkout go.mod go.sum` afterwards). `go build ./native/...` fails on the unmodified tree for packages depending on github.com/harmony-one/bls (missing cgo header); ignore those packages. Many existing tests in native/... already fail or do not build on the clean tree; if the existing _test.go files of a package do not build, run your own test with a build overlay that masks them: ov.json = {{"Replace": {{"<abs path of each existing _test.go>": "", "<abs dir>/zz_audit_test.go": "<abs path of your test file>"}}}} and `go test -overlay ov.json -vet=off -count=1 -run <Test> ./<pkg>/`. Keep CPU use modest (`-p 2`, run only the tests you need).

The properties:

{blocks}

Task: read the code the anchors name (and what it calls) with these properties in mind and look for concrete inputs, call sequences or histories for which the UNMODIFIED code violates a property as stated - e.g. a guard that reads a different key than the writers use, a check on the wrong variable, a missing check on one path or one router of a family, a stale record that survives an operation, an off-by-one at a boundary, a count that includes the same participant twice, an integer wrap or truncation that defeats a comparison, an error path that leaves state changed. Think about unusual but reachable histories (re-registration after removal, repeated calls, boundary heights, empty lists, duplicate entries, mixed-case routers). Only report what you can DEMONSTRATE.

For every violation you find write:
  /tmp/audit-{tag}/<short-name>_test.go - a Go test (internal test of the most convenient package) that exercises the real, unmodified code and FAILS because the property is violated (the failure message should say what happened vs what the property demands). It must not depend on network, time of day or randomness (a loop over map-iteration orders is fine).
  an entry in /tmp/audit-{tag}/report.json (a JSON list): {{"property", "summary" (what is wrong, where: file/function/line), "history" (the input or call sequence), "test_file", "test_pkg" (package directory relative to repo root), "test_run" (the -run pattern), "overlay_needed" (bool), "ran" (the command and its output tail), "severity_note" (who can trigger it), "suggested_fix" (smallest change that would restore the property)}}.
If after a careful look you find no demonstrable violation for a property, add an entry {{"property", "summary": "no violation found", "looked_at": [...]}}.
Leave the worktree clean when done (git checkout -- . ; remove your files from it). Reply with a short summary of each demonstrated violation (or 'none found') - nothing else.""")
