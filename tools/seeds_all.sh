#!/bin/bash
# seeds_all.sh [<egrep filter on seed names>]
# Regression over the kept seeded changes (/verif/seeded/<id>/patch.diff): each patch is applied to a scratch
# worktree of /repo's HEAD and the property's quick check must print a VIOLATION. Nothing is written to /repo,
# /verif/evidence or /verif/replays. Prints one line per seed and a summary; exit 1 if a seed is missed.
cd "$(dirname "$0")/.."
FILTER="${1:-.}"
missed=0; n=0
for d in $(ls seeded | grep -E "$FILTER"); do
  p=${d%-*}
  [ -f "seeded/$d/patch.diff" ] || continue
  out=$(tools/seed_eval.sh "$p" "seeded/$d/patch.diff" 2>&1)
  n=$((n+1))
  if echo "$out" | grep -q "SEED-DETECTED"; then
    echo "detected $d :: $(echo "$out" | grep -m1 '^VIOLATION' | sed 's/.*replays\///')"
  else
    echo "MISSED   $d :: $(echo "$out" | tail -2 | tr '\n' ' ')"; missed=$((missed+1))
  fi
done
echo "seeds: $n evaluated, $missed missed"
[ $missed = 0 ]
