#!/bin/bash
# dumps every query of the functions matching $1 twice and compares: query generation must be deterministic
pat="$1"
rm -rf /tmp/det1 /tmp/det2; mkdir -p /tmp/det1 /tmp/det2
(cd /tmp/det1 && /verif/bin/gocv func -timeout 1 -dump "/" "$pat" >/dev/null 2>&1)
(cd /tmp/det2 && /verif/bin/gocv func -timeout 1 -dump "/" "$pat" >/dev/null 2>&1)
n=$(ls /tmp/det1/dump | wc -l)
d=$(diff -rq /tmp/det1/dump /tmp/det2/dump | wc -l)
echo "$pat: $n queries, $d differ"
diff -rq /tmp/det1/dump /tmp/det2/dump | head -3
rm -rf /tmp/det1 /tmp/det2
