#!/bin/bash
# runs the quick check of every claimed property on /repo's working tree; prints one line each
cd "$(dirname "$0")/.."
rc=0
for p in $(python3 -c "import json;print(' '.join(sorted(json.load(open('claims.json'))['claimed'])))"); do
  out=$(./check $p --tier "${1:-quick}" 2>&1); r=$?
  echo "$out" | grep -E '^(OK|VIOLATION|KNOWN)' | head -5
  [ $r -ne 0 ] && { rc=1; echo "  exit=$r for $p"; echo "$out" | grep -v "^OK" | tail -5; }
done
exit $rc
