import json,sys
pid=sys.argv[1]
for l in open('/verif/properties.jsonl'):
    p=json.loads(l)
    if p['id']==pid: break
prompt=f"""You are helping evaluate a verification effort by producing realistic *property-breaking code changes* ("seeded changes") for the Go repository polynetwork/poly (Poly Network relay chain node).

You work ONLY in the scratch git worktree /tmp/wt-{pid} (a checkout of the repository). Do not read or write anything under /verif or /repo. Sandbox has no network: before every go command run
  export GOFLAGS=-mod=mod GOPROXY=off GOSUMDB=off GOTOOLCHAIN=local
(if go rewrites go.mod/go.sum, `git checkout go.mod go.sum` afterwards). Note: `go build ./native/...` fails on the UNMODIFIED tree for packages depending on github.com/harmony-one/bls (missing cgo header bls/bls.h); that is expected, ignore those packages, and many existing tests in native/... already fail or do not build on the clean tree.

The semantic property:
  id: {p['id']}
  title: {p['title']}
  statement: {p['statement']}
  quantifier: {json.dumps(p['quantifier'])}
  anchors: {json.dumps(p['anchors'])}

Task: write TWO independent, different changes to the production code (not tests) such that each:
  1. BREAKS the property for some inputs/histories (ideally only special ones - e.g. a boundary value, one router, a particular ordering - so that it looks like a plausible refactor, optimisation or 'simplification' a developer could really make, not sabotage);
  2. still COMPILES (`go build` of the touched packages and their dependents that built before);
  3. does NOT change the outcome of any existing test (run the existing tests of the touched package(s) before and after: same pass/fail set);
  4. comes with a DEMONSTRATION: a new Go test file (placed in the touched package or the most convenient package) that PASSES on the unmodified tree and FAILS with your change applied, showing the property violated against the real code. The demo must not depend on network, time of day or randomness. Building a NativeService for tests: look at existing *_test.go files in native/service/... for how they construct one (e.g. native.NewNativeService with a CacheDB over an in-memory overlay / storage.NewCacheDB(statestore.NewMemDatabase()) patterns) and how they sign transactions with a consensus operator account.
Prefer changes in different functions/files for the two patches, and prefer changes in the code the anchors name.

Deliverables, all under /tmp/seed-{pid}/ (create it):
  patch1.diff, patch2.diff  - `git diff` output of ONLY the production change (relative to the worktree HEAD, appliable with `git apply` at the repository root); make each patch independently from a clean tree (git stash / git checkout between them).
  demo1_test.go, demo2_test.go - the demonstration test files (state in meta.json which package directory each goes in and the `go test -run` pattern).
  meta.json - a JSON list with one object per patch: {{"property","patch","summary" (what was changed and why it breaks the property),"needs" (which inputs/histories expose it),"demo_pkg" (directory),"demo_run" (the -run pattern),"ran" (commands you ran and their outcomes: demo on clean tree, demo with patch, existing tests before/after)}}.
When finished, leave the worktree clean (git checkout -- . ; remove your test files from it) and reply with a short summary (what each patch does, and confirmation that the demo passes clean / fails patched). Do not produce anything else."""
print(prompt)
