#!/usr/bin/env python3
"""gen_decoder_contracts.py <package dir under /repo> ...

Prints (to stdout) decode-safety contracts (property C04) for every method
    func (x *T) Deserialization(source *common.ZeroCopySource) error
of the given packages that has no contract yet: abstract mode with run-time panics ON, the zero-copy
source's representation invariant as pre- and postcondition, and the same invariant for every loop.
The output is reviewed and appended by hand to the package's contracts_verif.go; loops that index a
slice made with a decoded length need one more invariant (len(slice) == count), added by hand."""
import re, sys, os

def body_of(src, start):
    i = src.index('{', start)
    depth = 0
    for j in range(i, len(src)):
        if src[j] == '{': depth += 1
        elif src[j] == '}':
            depth -= 1
            if depth == 0: return src[i:j+1]
    return ''

for pkg in sys.argv[1:]:
    d = os.path.join('/repo', pkg)
    have = ''
    cf = os.path.join(d, 'contracts_verif.go')
    if os.path.exists(cf): have = open(cf).read()
    out = []
    for fn in sorted(os.listdir(d)):
        if not fn.endswith('.go') or fn.endswith('_test.go') or fn == 'contracts_verif.go': continue
        src = open(os.path.join(d, fn)).read()
        for m in re.finditer(r'^func \((\w+) \*(\w+)\) Deserialization\((\w+) \*\w+\.ZeroCopySource\) error', src, re.M):
            recv, typ, srcname = m.groups()
            if '//@ func (*%s).Deserialization' % typ in have: continue
            body = body_of(src, m.end() - 1)
            nloops = len(re.findall(r'\bfor\b', body))
            lines = ['//@ func (*%s).Deserialization' % typ, '//@   property ' + os.environ.get('PROP', 'C04'), '//@   mode abstract', '//@   nopanic on',
                     '//@   requires %s != nil && %s != nil && %s.off <= uint64(len(%s.s))' % (recv, srcname, srcname, srcname),
                     '//@   modifies *',
                     '//@   ensures %s.off <= uint64(len(%s.s))' % (srcname, srcname)]
            for k in range(1, nloops + 1):
                lines.append('//@   loop %d invariant %s != nil && %s != nil && %s.off <= uint64(len(%s.s))' % (k, recv, srcname, srcname, srcname))
            out.append('\n'.join(lines))
    if out:
        print('// ==== %s' % pkg)
        print('\n\n'.join(out))
        print()
