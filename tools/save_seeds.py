#!/usr/bin/env python3
"""save_seeds.py <property> <dir with meta.json, patchN.diff, demoN_test.go>

Copies each seeded change of a sub-agent's deliverable directory to /verif/seeded/<property>-<letter>/,
confirms its demonstration in a scratch worktree and runs the property's quick check with the patch
applied to /repo (tools/seed_eval.sh does both and undoes the patch), and records the outcome in
meta.json. Nothing is committed to /repo."""
import json, os, re, shutil, string, subprocess, sys

prop, src = sys.argv[1], sys.argv[2]
metas = json.load(open(os.path.join(src, "meta.json")))
root = "/verif/seeded"
used = {d.split("-")[1] for d in os.listdir(root) if d.startswith(prop + "-")}
letters = [l for l in string.ascii_lowercase if l not in used]
for m in metas:
    patch = m["patch"]
    n = re.search(r"(\d+)", patch).group(1)
    demo = "demo%s_test.go" % n
    pkg = m.get("demo_pkg", "").strip("./")
    run = m.get("demo_run", ".")
    d = os.path.join(root, "%s-%s" % (prop, letters.pop(0)))
    os.makedirs(d, exist_ok=True)
    shutil.copy(os.path.join(src, patch), os.path.join(d, "patch.diff"))
    shutil.copy(os.path.join(src, demo), os.path.join(d, "demo_test.go"))
    out = subprocess.run(["/verif/tools/seed_eval.sh", prop, os.path.join(d, "patch.diff"),
                          os.path.join(d, "demo_test.go"), pkg, run],
                         capture_output=True, text=True).stdout
    lines = out.strip().split("\n")
    viol = [re.sub(r".*replays/[A-Z0-9]+-", "", l).replace(".json", "") for l in lines if l.startswith("VIOLATION")]
    demo_line = next((l for l in lines if l.startswith("demo:")), "demo: not run")
    verdict = "DETECTED" if any("SEED-DETECTED" in l for l in lines) else "MISSED"
    meta = {
        "property": prop,
        "summary": m.get("summary", ""),
        "needs": m.get("needs", ""),
        "demonstration": {"file": "demo_test.go", "place_in": pkg + "/zz_seed_demo_test.go",
                          "command": "go test -count=1 -run '%s' ./%s/" % (run, pkg)},
        "ran": ["tools/seed_eval.sh %s seeded/%s/patch.diff seeded/%s/demo_test.go %s '%s' -> %s; check: %s"
                % (prop, os.path.basename(d), os.path.basename(d), pkg, run, demo_line, verdict)],
        "detected_by": viol,
        "origin": "written by an independent sub-agent given only the property text and a scratch worktree of the repository without the contract files",
    }
    json.dump(meta, open(os.path.join(d, "meta.json"), "w"), indent=1)
    print(os.path.basename(d), demo_line, verdict, viol[:3])
    if "DEMO-NOT-CONFIRMED" in out:
        print("  !! demonstration not confirmed:\n" + out[-800:])
